#!/venv/bin/python
"""Run the repository's own test suite with the ambient contracts (vlib/contracts.py) installed:
a contract that fires there is either too strict or a defect the tests do not assert.
Usage: PYTHONPATH=/repo/src tools/tests_with_contracts.py   (prints evaluations and witnesses)"""
import os
import sys

HERE = os.path.dirname(os.path.dirname(os.path.abspath(__file__)))
sys.path.insert(0, HERE)
sys.path.insert(0, os.path.join(HERE, ".deps"))
from vlib import contracts  # noqa: E402

print("contracts installed:", contracts.install())
import pytest  # noqa: E402

repo = os.environ.get("VERIF_REPO", "/repo")
os.chdir(repo)
rc = pytest.main(["-q", "-p", "no:cacheprovider", "tests"])
print("pytest rc", rc, "contract evaluations", contracts.EVALS, "witnesses", contracts.BROKEN[:5])
sys.exit(1 if (rc or contracts.BROKEN) else 0)
