#!/bin/bash
# tools/try_seed_wt.sh <seed-id> <check-id> [tier]  - like try_seed.sh but on a scratch worktree of /repo
# (VERIF_REPO), so /repo itself is never touched (safe while background runs use /repo).
HERE="$(cd "$(dirname "$0")/.." && pwd)"
S=$1; C=$2; T=${3:-quick}
WT=/tmp/geckolib-seedtry-$$
git -C /repo worktree add --detach $WT HEAD >/dev/null 2>&1 || { echo "worktree failed"; exit 2; }
if ! git -C $WT apply "$HERE/seeded/$S/patch.diff" 2>/dev/null; then
  echo "patch does not apply to the current tree (needs rebasing): $S"; git -C /repo worktree remove --force $WT; exit 2
fi
mkdir -p "$HERE/.cache"
cp "$HERE/evidence/$C.json" "$HERE/.cache/ev.$C.bak.$$" 2>/dev/null
VERIF_REPO=$WT "$HERE/check" $C --tier $T > "$HERE/.cache/try.$S.$C.out" 2>&1; RC=$?
cp "$HERE/.cache/ev.$C.bak.$$" "$HERE/evidence/$C.json" 2>/dev/null; rm -f "$HERE/.cache/ev.$C.bak.$$"
git -C /repo worktree remove --force $WT; git -C /repo worktree prune
grep -E "VIOLATION|INCONCLUSIVE|violated:" "$HERE/.cache/try.$S.$C.out" | head -${LINES_SHOWN:-4}
echo "seed=$S check=$C exit=$RC"
