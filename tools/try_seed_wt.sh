#!/bin/bash
# tools/try_seed_wt.sh <seed-id> <check-id> [tier]  - run a check against a seeded change applied to a
# scratch worktree of /repo (VERIF_REPO), so /repo itself is never touched; evidence and replays of the
# patched run go to a scratch directory (VERIF_OUT), not to /verif/evidence.  CHECK_SEED=<n> picks the seed.
HERE="$(cd "$(dirname "$0")/.." && pwd)"
S=$1; C=$2; T=${3:-quick}
WT=/tmp/geckolib-seedtry-$$
OUT=/tmp/geckolib-seedout-$$
git -C /repo worktree add --detach $WT HEAD >/dev/null 2>&1 || { echo "worktree failed"; exit 2; }
if ! git -C $WT apply "$HERE/seeded/$S/patch.diff" 2>/dev/null; then
  echo "patch does not apply to the current tree (needs rebasing): $S"; git -C /repo worktree remove --force $WT; exit 2
fi
mkdir -p "$HERE/.cache"
VERIF_REPO=$WT VERIF_OUT=$OUT "$HERE/check" $C --tier $T --seed ${CHECK_SEED:-0} > "$HERE/.cache/try.$S.$C.out" 2>&1; RC=$?
git -C /repo worktree remove --force $WT; git -C /repo worktree prune; rm -rf $OUT "$HERE/.cache/pyc$WT"
grep -E "VIOLATION|INCONCLUSIVE|violated:" "$HERE/.cache/try.$S.$C.out" | head -${LINES_SHOWN:-4}
echo "seed=$S check=$C exit=$RC"
