"""Write the layout pin: python tools/make_pin.py <out.json.gz>
(PYTHONPATH must put the geckolib source to pin first, then /verif)."""
import gzip
import json
import sys

from vlib import layout

lay = layout.full_layout()
with gzip.open(sys.argv[1], "wt", compresslevel=9) as f:
    json.dump(lay, f, sort_keys=True, separators=(",", ":"))
print(len(lay), "modules", sum(len(m["items"]) for m in lay.values()), "items")
