#!/bin/bash
# Seed sweep on the unchanged tree: tools/sweep.sh <tier> <seed> [<seed>...]   (evidence goes to a scratch dir)
# Prints one line per (check, seed) that did not exit 0 and a summary; used before finishing to look for false alarms.
tier=$1; shift
out=$(mktemp -d /tmp/geckolib-sweep-XXXXXX)
bad=0
for seed in "$@"; do
  for n in $(seq -w 1 20); do
    id=C$n
    VERIF_OUT=$out PYTHONHASHSEED=0 /verif/check $id --tier $tier --seed $seed > $out/$id.$seed.log 2>&1
    rc=$?
    if [ $rc -ne 0 ]; then bad=$((bad+1)); echo "NONZERO $id tier=$tier seed=$seed rc=$rc: $(grep -E 'VIOLATION|INCONCLUSIVE' $out/$id.$seed.log | head -3)"; cp $out/$id.$seed.log /verif/.cache/sweep-$id-$tier-$seed.log; fi
  done
  echo "seed $seed done ($(date +%H:%M))"
done
echo "sweep tier=$tier seeds=$* nonzero=$bad"
rm -rf $out
