"""Automatic one-site mutants of the library, run against the checks that own the mutated code.

    python tools/automut.py gen  [--per-file N] [--seed S]      -> .cache/automut/mutants.jsonl
    python tools/automut.py run  [--workers K] [--only SUBSTR]  -> .cache/automut/results.jsonl
    python tools/automut.py report                              -> mutation/AUTOMUT.md (committed)

Every mutant is one AST-level edit (comparison / boolean / arithmetic operator swap, small
integer +-1, True<->False, `not` dropped, a statement replaced by `pass`, break<->continue,
early `return None`) applied to a scratch worktree of /repo (never /repo itself).  A mutant
that the repository's own 103 tests reject is discarded ("tests"); the others are run
against the quick tier of the checks mapped to the file; exit 1 = caught, 0 = survived,
2 = only inconclusive.  Survivors are triaged by hand in mutation/AUTOMUT.md: equivalent,
outside every listed property, or a gap (then the check is strengthened).
"""
from __future__ import annotations

import ast
import copy
import json
import os
import random
import subprocess
import sys
import threading

HERE = os.path.dirname(os.path.dirname(os.path.abspath(__file__)))
OUTDIR = os.path.join(HERE, ".cache", "automut")
REPO = "/repo"
PY = "/venv/bin/python"

FILES = {
    "driver/accessor.py": ["C02", "C03", "C14", "C18", "C11", "C13"],
    "driver/observable.py": ["C03"],
    "driver/spastruct.py": ["C01", "C03", "C05", "C20", "C12", "C11"],
    "driver/async_spastruct.py": ["C01", "C03", "C05", "C12", "C11", "C13"],
    "driver/async_peekablequeue.py": ["C07", "C06"],
    "driver/async_udp_protocol.py": ["C06", "C16", "C10", "C07", "C09", "C05"],
    "driver/udp_protocol_handler.py": ["C06", "C07", "C20", "C09", "C05"],
    "driver/udp_socket.py": ["C20", "C16", "C15"],
    "driver/protocol/packet.py": ["C04", "C07", "C01"],
    "driver/protocol/hello.py": ["C04", "C15"],
    "driver/protocol/ping.py": ["C04", "C06"],
    "driver/protocol/version.py": ["C04"],
    "driver/protocol/getchannel.py": ["C04"],
    "driver/protocol/configfile.py": ["C04", "C18"],
    "driver/protocol/statusblock.py": ["C04", "C01", "C05"],
    "driver/protocol/packcommand.py": ["C04", "C13"],
    "driver/protocol/watercare.py": ["C04", "C13"],
    "driver/protocol/reminders.py": ["C04"],
    "driver/protocol/firmware.py": ["C04"],
    "driver/protocol/rferr.py": ["C04", "C07"],
    "async_spa.py": ["C09", "C05", "C06", "C07", "C10", "C13", "C08", "C01"],
    "async_spa_manager.py": ["C08", "C09", "C10"],
    "async_locator.py": ["C15", "C10"],
    "async_tasks.py": ["C10", "C17"],
    "locator.py": ["C15"],
    "spa.py": ["C20", "C05", "C13", "C16", "C01"],
    "config.py": ["C17", "C06"],
    "automation/async_facade.py": ["C11", "C12", "C13", "C17", "C10", "C09"],
    "automation/facade.py": ["C11", "C12", "C13"],
    "automation/heater.py": ["C14", "C11", "C13"],
    "automation/pump.py": ["C13", "C11", "C12", "C17"],
    "automation/blower.py": ["C13", "C11"],
    "automation/light.py": ["C13", "C11"],
    "automation/switch.py": ["C13", "C11"],
    "automation/watercare.py": ["C13", "C11"],
    "automation/sensors.py": ["C11", "C14"],
    "automation/base.py": ["C11", "C12"],
    "utils/snapshot.py": ["C19"],
    "utils/simulator.py": ["C19", "C01", "C05"],
}

CMP = {ast.Lt: ast.LtE, ast.LtE: ast.Lt, ast.Gt: ast.GtE, ast.GtE: ast.Gt, ast.Eq: ast.NotEq, ast.NotEq: ast.Eq, ast.Is: ast.IsNot, ast.IsNot: ast.Is, ast.In: ast.NotIn, ast.NotIn: ast.In}
BIN = {ast.Add: ast.Sub, ast.Sub: ast.Add, ast.Mult: ast.FloorDiv, ast.LShift: ast.RShift, ast.RShift: ast.LShift, ast.BitAnd: ast.BitOr, ast.BitOr: ast.BitAnd, ast.Mod: ast.FloorDiv}


def is_logging(node):
    for n in ast.walk(node):
        if isinstance(n, ast.Attribute) and isinstance(n.value, ast.Name) and n.value.id in ("_LOGGER", "logger", "logging"):
            return True
    return False


class Sites(ast.NodeVisitor):
    """Collect (kind, path-to-node) candidate sites; path = list of (field, index) from the module."""

    def __init__(self):
        self.sites = []
        self.path = []
        self.func = []

    def generic_visit(self, node):
        for field, value in ast.iter_fields(node):
            if isinstance(value, list):
                for i, item in enumerate(value):
                    if isinstance(item, ast.AST):
                        self.path.append((field, i))
                        self.visit(item)
                        self.path.pop()
            elif isinstance(value, ast.AST):
                self.path.append((field, None))
                self.visit(value)
                self.path.pop()

    def add(self, kind, extra=None):
        self.sites.append((kind, list(self.path), extra, ".".join(self.func)))

    def visit_FunctionDef(self, node):
        if node.name in ("__repr__",):
            return
        self.func.append(node.name)
        # only the body (not decorators / annotations / defaults)
        for i, st in enumerate(node.body):
            self.path.append(("body", i))
            self.visit(st)
            self.path.pop()
        self.func.pop()

    visit_AsyncFunctionDef = visit_FunctionDef

    def visit_ClassDef(self, node):
        self.func.append(node.name)
        for i, st in enumerate(node.body):
            self.path.append(("body", i))
            self.visit(st)
            self.path.pop()
        self.func.pop()

    def visit_Expr(self, node):
        if isinstance(node.value, ast.Constant) and isinstance(node.value.value, str):
            return  # docstring
        if is_logging(node):
            return
        if self.func and isinstance(node.value, (ast.Call, ast.Await)):
            self.add("del-stmt")
        self.generic_visit(node)

    def visit_Assert(self, node):
        return

    def visit_Assign(self, node):
        if self.func and not is_logging(node):
            self.add("del-stmt")
        self.generic_visit(node)

    def visit_AugAssign(self, node):
        if self.func:
            self.add("del-stmt")
        self.generic_visit(node)

    def visit_Compare(self, node):
        if self.func and len(node.ops) == 1 and type(node.ops[0]) in CMP:
            self.add("cmp")
        self.generic_visit(node)

    def visit_BoolOp(self, node):
        if self.func:
            self.add("boolop")
        self.generic_visit(node)

    def visit_UnaryOp(self, node):
        if self.func and isinstance(node.op, ast.Not):
            self.add("not")
        self.generic_visit(node)

    def visit_BinOp(self, node):
        if self.func and type(node.op) in BIN and not (isinstance(node.left, ast.Constant) and isinstance(node.left.value, str)) and not is_logging(node):
            self.add("binop")
        self.generic_visit(node)

    def visit_Constant(self, node):
        if not self.func:
            return
        if isinstance(node.value, bool):
            self.add("bool")
        elif isinstance(node.value, int) and 0 <= node.value <= 1024:
            self.add("int", +1)
            if node.value > 0:
                self.add("int", -1)

    def visit_Call(self, node):
        if is_logging(node):
            return
        self.generic_visit(node)

    def visit_Break(self, node):
        self.add("break")

    def visit_Continue(self, node):
        self.add("continue")

    def visit_Return(self, node):
        if self.func and node.value is not None and not (isinstance(node.value, ast.Constant) and node.value.value is None):
            self.add("return-none")
        self.generic_visit(node)

    def visit_If(self, node):
        if self.func and not is_logging(node.test):
            self.add("if-true")
            self.add("if-false")
        self.generic_visit(node)

    def visit_JoinedStr(self, node):
        return  # f-strings: messages


def node_at(tree, path):
    n = tree
    for field, idx in path:
        v = getattr(n, field)
        n = v[idx] if idx is not None else v
    return n


def set_at(tree, path, new):
    parent = node_at(tree, path[:-1])
    field, idx = path[-1]
    if idx is None:
        setattr(parent, field, new)
    else:
        getattr(parent, field)[idx] = new


def mutate(tree, site):
    kind, path, extra, func = site
    t = copy.deepcopy(tree)
    n = node_at(t, path)
    line = getattr(n, "lineno", 0)
    if kind == "del-stmt":
        desc = f"statement `{ast.unparse(n)[:70]}` -> pass"
        set_at(t, path, ast.copy_location(ast.Pass(), n))
    elif kind == "cmp":
        new = CMP[type(n.ops[0])]()
        desc = f"`{ast.unparse(n)[:70]}`: {type(n.ops[0]).__name__} -> {type(new).__name__}"
        n.ops[0] = new
    elif kind == "boolop":
        new = ast.Or() if isinstance(n.op, ast.And) else ast.And()
        desc = f"`{ast.unparse(n)[:70]}`: {type(n.op).__name__} -> {type(new).__name__}"
        n.op = new
    elif kind == "not":
        desc = f"`{ast.unparse(n)[:70]}`: not dropped"
        set_at(t, path, n.operand)
    elif kind == "binop":
        new = BIN[type(n.op)]()
        desc = f"`{ast.unparse(n)[:70]}`: {type(n.op).__name__} -> {type(new).__name__}"
        n.op = new
    elif kind == "bool":
        desc = f"constant {n.value} -> {not n.value}"
        n.value = not n.value
    elif kind == "int":
        desc = f"constant {n.value} -> {n.value + extra}"
        n.value = n.value + extra
    elif kind == "break":
        desc = "break -> continue"
        set_at(t, path, ast.copy_location(ast.Continue(), n))
    elif kind == "continue":
        desc = "continue -> break"
        set_at(t, path, ast.copy_location(ast.Break(), n))
    elif kind == "return-none":
        desc = f"`return {ast.unparse(n.value)[:60]}` -> return None"
        n.value = ast.copy_location(ast.Constant(None), n.value)
    elif kind == "if-true":
        desc = f"`if {ast.unparse(n.test)[:60]}` -> if True"
        n.test = ast.copy_location(ast.Constant(True), n.test)
    elif kind == "if-false":
        desc = f"`if {ast.unparse(n.test)[:60]}` -> if False"
        n.test = ast.copy_location(ast.Constant(False), n.test)
    else:
        raise ValueError(kind)
    ast.fix_missing_locations(t)
    return line, func, desc, ast.unparse(t)


def gen(per_file, seed, only_files=None, tag=""):
    os.makedirs(OUTDIR, exist_ok=True)
    out = []
    for rel, checks in FILES.items():
        if only_files and not any(x in rel for x in only_files):
            continue
        p = os.path.join(REPO, "src", "geckolib", rel)
        if not os.path.exists(p):
            print("missing", rel)
            continue
        src = open(p).read()
        tree = ast.parse(src)
        v = Sites()
        v.visit(tree)
        r = random.Random(f"{seed}:{rel}")
        sites = list(v.sites)
        r.shuffle(sites)
        # weight: at most per_file, at least 3, about one per 12 source lines
        n = max(3, min(per_file, len(src.splitlines()) // (12 if not tag else 6)))
        taken, seen = 0, set()
        for site in sites:
            if taken >= n:
                break
            try:
                line, func, desc, new_src = mutate(tree, site)
            except Exception:
                continue
            if (line, desc) in seen or new_src == ast.unparse(tree):
                continue
            seen.add((line, desc))
            out.append({"id": f"{tag}{rel}:{line}:{site[0]}:{taken}", "file": rel, "line": line, "func": func, "desc": desc, "checks": checks, "source": new_src})
            taken += 1
        print(rel, len(v.sites), "sites ->", taken)
    with open(os.path.join(OUTDIR, f"mutants{tag}.jsonl"), "w") as f:
        for m in out:
            f.write(json.dumps(m) + "\n")
    print(len(out), "mutants")


def run_one(m, wt, outdir):
    target = os.path.join(wt, "src", "geckolib", m["file"])
    orig = open(target).read()
    res = {"id": m["id"], "file": m["file"], "line": m["line"], "func": m["func"], "desc": m["desc"], "status": None, "by": None, "keys": [], "tried": []}
    try:
        open(target, "w").write(m["source"])
        env = dict(os.environ, PYTHONPATH=os.path.join(wt, "src"), PYTHONDONTWRITEBYTECODE="1")
        try:
            p = subprocess.run([PY, "-m", "pytest", "-q", "-x", "-p", "no:cacheprovider", "tests"], cwd=wt, env=env, stdout=subprocess.PIPE, stderr=subprocess.STDOUT, timeout=300)
            ok = p.returncode == 0
        except subprocess.TimeoutExpired:
            ok = False
        if not ok:
            res["status"] = "tests"
            return res
        env = dict(os.environ, VERIF_REPO=wt, VERIF_OUT=outdir)
        inconc = False
        for chk in m["checks"]:
            try:
                p = subprocess.run([os.path.join(HERE, "check"), chk], env=env, stdout=subprocess.PIPE, stderr=subprocess.STDOUT, timeout=900)
                rc, out = p.returncode, p.stdout.decode(errors="replace")
            except subprocess.TimeoutExpired:
                rc, out = 2, "timeout"
            res["tried"].append((chk, rc))
            if rc == 1:
                res["status"], res["by"] = "caught", chk
                res["keys"] = sorted({l.split("violated: ")[1].split(": ")[0] for l in out.splitlines() if "violated: " in l})[:4]
                return res
            if rc != 0:
                inconc = True
        res["status"] = "inconclusive" if inconc else "survived"
        return res
    finally:
        open(target, "w").write(orig)


def run(workers, only, tag=""):
    ms = [json.loads(l) for l in open(os.path.join(OUTDIR, f"mutants{tag}.jsonl"))]
    done = set()
    rp = os.path.join(OUTDIR, f"results{tag}.jsonl")
    if os.path.exists(rp):
        done = {json.loads(l)["id"] for l in open(rp)}
    todo = [m for m in ms if m["id"] not in done and (only is None or only in m["id"])]
    print(len(todo), "to run")
    lock = threading.Lock()
    it = iter(todo)

    def worker(k):
        wt = f"/tmp/automut-wt-{os.getpid()}-{k}"
        outdir = f"/tmp/automut-out-{os.getpid()}-{k}"
        subprocess.run(["git", "-C", REPO, "worktree", "add", "--detach", wt, "HEAD"], stdout=subprocess.DEVNULL, stderr=subprocess.DEVNULL, check=True)
        try:
            while True:
                with lock:
                    m = next(it, None)
                if m is None:
                    break
                res = run_one(m, wt, outdir)
                with lock:
                    with open(rp, "a") as f:
                        f.write(json.dumps(res) + "\n")
                    print(res["status"], res["by"], m["id"], "|", m["desc"][:80], flush=True)
        finally:
            subprocess.run(["git", "-C", REPO, "worktree", "remove", "--force", wt], stdout=subprocess.DEVNULL, stderr=subprocess.DEVNULL)
            subprocess.run(["git", "-C", REPO, "worktree", "prune"])
            subprocess.run(["rm", "-rf", outdir])

    ts = [threading.Thread(target=worker, args=(k,)) for k in range(workers)]
    for t in ts:
        t.start()
    for t in ts:
        t.join()


def report():
    """Merges results.jsonl (mapped checks) with results2.jsonl (survivors re-run against further
    checks by hand-picked mapping) and applies mutation/triage_rules.py to what is left."""
    rs = [json.loads(l) for l in open(os.path.join(OUTDIR, "results.jsonl"))]
    for extra in sorted(os.listdir(OUTDIR)):
        # further batches: results<tag>.jsonl written by `run --tag <tag>` (ids carry the tag)
        if extra.startswith("results") and extra not in ("results.jsonl", "results2.jsonl") and extra.endswith(".jsonl"):
            rs += [json.loads(l) for l in open(os.path.join(OUTDIR, extra))]
    r2p = os.path.join(OUTDIR, "results2.jsonl")
    second = {}
    if os.path.exists(r2p):
        for l in open(r2p):
            x = json.loads(l)
            second[x["id"]] = x
    sys.path.insert(0, os.path.join(HERE, "mutation"))
    from triage_rules import RULES

    def triage(r):
        for key, verdict in RULES:
            if key in r["id"]:
                return verdict
        return "NOT TRIAGED"

    from collections import Counter

    for r in rs:
        x = second.get(r["id"])
        if x is not None:
            r["tried"] = r["tried"] + x["tried"]
            if x["status"] == "caught":
                r["status"], r["by"], r["keys"] = "caught", x["by"] + " (second pass)", x["keys"]
            elif r["status"] == "inconclusive" or x["status"] == "inconclusive":
                r["status"] = "inconclusive"
    c = Counter(r["status"] for r in rs)
    os.makedirs(os.path.join(HERE, "mutation"), exist_ok=True)
    with open(os.path.join(HERE, "mutation", "AUTOMUT.md"), "w") as f:
        f.write("# Automatic one-site mutants (tools/automut.py)\n\n")
        f.write(f"{len(rs)} mutants over {len(FILES)} files (operators: comparison / boolean / arithmetic swap, small integer +-1, True<->False, dropped `not`, statement -> pass, break<->continue, return None, if -> True/False; sampled per file, seed 0).\n\n")
        f.write(f"* rejected by the repository's own 103 tests: **{c['tests']}**\n* pass the tests: **{len(rs) - c['tests']}**, of which\n  * reported by a check (VIOLATION): **{c['caught']}**\n  * only inconclusive (the rig cannot connect / a watchdog fires - exit 2, never 0): **{c['inconclusive']}**\n  * no check fired: **{c['survived']}** - triaged below\n\n")
        f.write("First pass = the checks mapped to the mutated file in tools/automut.py; second pass = survivors and inconclusives re-run against further checks where the first mapping was too narrow (e.g. the structure classes also feed the facades).\n\n")
        f.write("## Not reported: triage\n\n| mutant | where | change | checks tried (exit) | verdict |\n|---|---|---|---|---|\n")
        for r in rs:
            if r["status"] in ("survived", "inconclusive"):
                tried = " ".join(f"{a}:{b}" for a, b in r["tried"])
                v = triage(r) if r["status"] == "survived" else "inconclusive everywhere: the mutant stops the client from connecting (or hangs it); every rig-based check exits 2"
                f.write(f"| {r['id']} | {r['func']} | {r['desc'].replace('|', '/')} | {tried} | {v} |\n")
        f.write("\n## Reported (first check that fired)\n\n| mutant | change | check | fingerprints |\n|---|---|---|---|\n")
        for r in rs:
            if r["status"] == "caught":
                f.write(f"| {r['id']} | {r['desc'].replace('|', '/')} | {r['by']} | {', '.join(r['keys'][:3])} |\n")
    print(c, "untriaged:", sum(1 for r in rs if r["status"] == "survived" and triage(r) == "NOT TRIAGED"))
    for r in rs:
        if r["status"] == "survived" and triage(r) == "NOT TRIAGED":
            print("  ", r["id"], r["desc"][:80])


if __name__ == "__main__":
    a = sys.argv[1:]
    opt = lambda k, d: (a[a.index(k) + 1] if k in a else d)  # noqa
    if a[0] == "gen":
        gen(int(opt("--per-file", 14)), opt("--seed", "0"), opt("--files", "").split(",") if opt("--files", "") else None, opt("--tag", ""))
    elif a[0] == "run":
        run(int(opt("--workers", 3)), opt("--only", None), opt("--tag", ""))
    else:
        report()
