"""Regenerate MANIFEST.json from tools/manifest_checks.json (claimed checks) and
properties.jsonl (anything not claimed is listed under not_applicable with its reason)."""
import json
import os

HERE = os.path.dirname(os.path.dirname(os.path.abspath(__file__)))
spec = json.load(open(os.path.join(HERE, "tools", "manifest_checks.json")))
props = [json.loads(l) for l in open(os.path.join(HERE, "properties.jsonl"))]
checks = []
na = []
for p in props:
    pid = p["id"]
    c = spec["checks"].get(pid)
    if c is None:
        na.append({"property_id": pid, "reason": spec["not_claimed"].get(pid, "check not built yet in this session (runtime monitoring applies; see DESIGN.md section 3)")})
        continue
    checks.append(
        {
            "property_id": pid,
            "quick_cmd": f"./check {pid} --tier quick",
            "thorough_cmd": f"./check {pid} --tier thorough",
            "evidence_file": f"evidence/{pid}.json",
            "replay_cmd_template": f"./check {pid} --replay {{path}}",
            "engine": "vlib",
            "level_claimed": {"category": c["category"], "text": c["text"], "design_ref": c.get("design_ref", f"DESIGN.md section 3, {pid}")},
            "level_note": c["note"],
            "technique": c["technique"],
        }
    )
man = {
    "version": 1,
    "setup_cmd": "./setup.sh",
    "hooks": {
        "guard": "GECKOLIB_VERIF",
        "enable": "no source hooks: all monitors are attached from the harness at the library's own boundaries (transport, queue, delegates, observers, handle_event); ./check sets GECKOLIB_VERIF=1 for its own processes only",
        "baseline_off_cmd": "cd /repo && /venv/bin/python -m pytest -ra -q -p no:cacheprovider --timeout=900 --continue-on-collection-errors",
        "source_commits": [],
        "add_only": True,
    },
    "engines": [
        {
            "name": "vlib",
            "path": "vlib/",
            "serves_properties": [c["property_id"] for c in checks],
            "kind_free_text": "runtime monitoring harness: virtual-time asyncio loop, virtual network with fault scripts, the real simulator as peer, deterministic baton scheduler for the threaded stack, sys.monitoring yield injection, reference-model oracles, icontract ambient contracts",
        }
    ],
    "checks": checks,
    "notes": spec.get("notes", ""),
    "not_applicable": na,
}
json.dump(man, open(os.path.join(HERE, "MANIFEST.json"), "w"), indent=1)
print("checks:", [c["property_id"] for c in checks], "unclaimed:", [n["property_id"] for n in na])
