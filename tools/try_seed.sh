#!/bin/bash
# tools/try_seed.sh <seed-id> <check-id> [tier]   - apply a seeded change to /repo, run a check, undo it.
HERE="$(cd "$(dirname "$0")/.." && pwd)"
S=$1; C=$2; T=${3:-quick}
[ -z "$(git -C /repo status --porcelain)" ] || { echo "/repo not clean"; exit 2; }
if ! git -C /repo apply --check "$HERE/seeded/$S/patch.diff" 2>/dev/null; then
  echo "patch does not apply to the current tree (needs rebasing): $S"; exit 2
fi
git -C /repo apply "$HERE/seeded/$S/patch.diff"
mkdir -p "$HERE/.cache"
cp "$HERE/evidence/$C.json" "$HERE/.cache/ev.$C.bak" 2>/dev/null
"$HERE/check" $C --tier $T > "$HERE/.cache/try.$S.$C.out" 2>&1; RC=$?
git -C /repo checkout -- .
cp "$HERE/.cache/ev.$C.bak" "$HERE/evidence/$C.json" 2>/dev/null
grep -E "VIOLATION|INCONCLUSIVE|violated:" "$HERE/.cache/try.$S.$C.out" | head -${LINES_SHOWN:-4}
echo "seed=$S check=$C exit=$RC"
