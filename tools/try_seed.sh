#!/bin/bash
# tools/try_seed.sh <seed-id> <check-id> [tier]   - apply a seeded change to /repo, run a check, undo it.
HERE="$(cd "$(dirname "$0")/.." && pwd)"
S=$1; C=$2; T=${3:-quick}
[ -z "$(git -C /repo status --porcelain -- src)" ] || { echo "/repo not clean"; exit 2; }
git -C /repo apply --3way "$HERE/seeded/$S/patch.diff" 2>/dev/null || git -C /repo apply "$HERE/seeded/$S/patch.diff" || { echo "patch failed"; git -C /repo checkout -- .; exit 2; }
cp "$HERE/evidence/$C.json" "$HERE/.cache/ev.$C.bak" 2>/dev/null
"$HERE/check" $C --tier $T > "$HERE/.cache/try.$S.$C.out" 2>&1; RC=$?
git -C /repo reset -q; git -C /repo checkout -- .
cp "$HERE/.cache/ev.$C.bak" "$HERE/evidence/$C.json" 2>/dev/null
grep -E "VIOLATION|INCONCLUSIVE|violated:" "$HERE/.cache/try.$S.$C.out" | head -6
echo "seed=$S check=$C exit=$RC"
