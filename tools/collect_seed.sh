#!/bin/bash
# tools/collect_seed.sh <Cxx> <n> <seed-id> "<what it needs to manifest>"
# Re-verifies a sub-agent's seeded change in its scratch worktree and stores it under seeded/<seed-id>/
set -u
P=$1; N=$2; ID=$3; NEEDS=$4
WT=${WTROOT:-/tmp/wt}/$P
HERE="$(cd "$(dirname "$0")/.." && pwd)"
cd $WT || exit 2
export PYTHONPATH=$WT/src
git checkout -q -- src || exit 2
[ -z "$(git status --porcelain -- src)" ] || { echo "worktree src not pristine"; exit 2; }
git apply --check patch$N.diff || { echo "patch does not apply"; exit 2; }
timeout 300 /venv/bin/python demo$N.py >$WT/.demo.out 2>&1; D0=$?
git apply patch$N.diff
timeout 600 /venv/bin/python -m pytest -q -p no:cacheprovider tests >$WT/.test.out 2>&1; T1=$?
TSUM=$(tail -1 $WT/.test.out)
timeout 300 /venv/bin/python demo$N.py >$WT/.demo1.out 2>&1; D1=$?
git checkout -q -- src
echo "pristine demo exit=$D0; patched tests exit=$T1 ($TSUM); patched demo exit=$D1"
if [ $D0 -ne 0 ] || [ $T1 -ne 0 ] || [ $D1 -eq 0 ]; then echo "REJECTED"; exit 1; fi
mkdir -p $HERE/seeded/$ID
cp patch$N.diff $HERE/seeded/$ID/patch.diff
cp demo$N.py $HERE/seeded/$ID/demo.py
python3 - "$HERE/seeded/$ID/meta.json" "$P" "$NEEDS" "$TSUM" "$D0" "$D1" <<'PY'
import json,sys
out,p,needs,tsum,d0,d1=sys.argv[1:]
json.dump({"property":p,"source":"independent sub-agent given only the property record and a scratch worktree","needs_to_manifest":needs,
 "verified":{"pristine_demo_exit":int(d0),"patched_tests":tsum,"patched_demo_exit":int(d1),
 "how":"tools/collect_seed.sh: in the scratch worktree, demo on pristine (exit 0), git apply patch, full pytest suite (must pass), demo again (must fail), git checkout"},
 "caught_by":None},open(out,"w"),indent=1)
PY
echo "KEPT seeded/$ID"
