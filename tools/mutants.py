"""Deliberate property-breaking changes (the M lists of DESIGN.md section 3) applied one at a time to a
scratch worktree of /repo (never /repo itself) and run against the quick tier of the named checks with
VERIF_REPO pointing at the worktree.  Usage: python tools/mutants.py [substring filter]"""
import json
import os
import subprocess
import sys

HERE = os.path.dirname(os.path.dirname(os.path.abspath(__file__)))
WT = "/tmp/geckolib-mutants"
M = [
    # id, file, old, new, checks
    ("C01-drop-sequence-test", "src/geckolib/driver/async_spastruct.py", "if next_expected == request.sequence:", "if True:", ["C01"]),
    ("C01-install-every-segment", "src/geckolib/driver/async_spastruct.py", "                            if request.next == 0:\n\n                                _LOGGER.debug(", "                            if True:\n\n                                _LOGGER.debug(", ["C01"]),
    ("C01-retry-count-ge0", "src/geckolib/driver/async_spastruct.py", "while retry_count > 0:", "while retry_count >= 0:", ["C01"]),
    ("C01-sim-next-no-wrap", "src/geckolib/utils/simulator.py", "next = (idx + 1) % -(-handler.length // self._STATUS_BLOCK_SEGMENT_SIZE)", "next = idx + 1", ["C01", "C20"]),
    ("C02-mask-without-shift", "src/geckolib/driver/accessor.py", "            newvalue = (existing & ~(self.bitmask << self.bitpos)) | (\n                (newvalue & self.bitmask) << self.bitpos\n            )\n\n        _LOGGER.debug(\n            \"Accessor %s @ %s, %s setting value to %s, existing value was %s. \"\n            \"Length is %d\",\n            self.tag,\n            self.pos,\n            self.type,\n            newvalue,\n            existing,\n            self.length,\n        )\n\n        # We can't handle this here, we must delegate via the structure\n        self.struct.set_value(", "            newvalue = (existing & ~(self.bitmask)) | (\n                (newvalue & self.bitmask) << self.bitpos\n            )\n\n        _LOGGER.debug(\n            \"Accessor %s @ %s, %s setting value to %s, existing value was %s. \"\n            \"Length is %d\",\n            self.tag,\n            self.pos,\n            self.type,\n            newvalue,\n            existing,\n            self.length,\n        )\n\n        # We can't handle this here, we must delegate via the structure\n        self.struct.set_value(", ["C02"]),
    ("C02-permission-check-removed-async", "src/geckolib/driver/accessor.py", "    async def async_set_value(self, newvalue):\n        \"\"\"Set a value in the pack structure using the initialized declaration\"\"\"\n        if self.read_write is None:", "    async def async_set_value(self, newvalue):\n        \"\"\"Set a value in the pack structure using the initialized declaration\"\"\"\n        if False:", ["C02"]),
    ("C03-notify-before-swap", "src/geckolib/driver/async_spastruct.py", "        previous_block = self._status_block\n        segment_len = len(segment)\n        self._status_block = (\n            self._status_block[0:offset]\n            + segment\n            + self._status_block[offset + segment_len :]\n        )\n        # Notify changes to accessors\n        for accessor in self.accessors.values():\n            accessor.status_block_changed(offset, segment_len, previous_block)", "        previous_block = self._status_block\n        segment_len = len(segment)\n        new_block = (\n            self._status_block[0:offset]\n            + segment\n            + self._status_block[offset + segment_len :]\n        )\n        # Notify changes to accessors\n        for accessor in self.accessors.values():\n            accessor.status_block_changed(offset, segment_len, previous_block)\n        self._status_block = new_block", ["C03"]),
    ("C03-compare-raw", "src/geckolib/driver/accessor.py", "        old_value = self._get_value(previous)\n        new_value = self.value\n\n        # No reason to notify if there is no change\n        if new_value == old_value:\n            return", "        old_value = self._get_value(previous)\n        new_value = self.value\n\n        # No reason to notify if there is no change\n        if previous[self.pos : self.pos + self.length] == self.struct.status_block[self.pos : self.pos + self.length]:\n            return", ["C03"]),
    ("C03-intersection-lt", "src/geckolib/driver/accessor.py", "if intersection_end - intersection_start <= 0:", "if intersection_end - intersection_start <= 1:", ["C03"]),
    ("C03-watch-no-dedup", "src/geckolib/driver/observable.py", "        if observer in self._observers:", "        if False:", ["C03"]),
    ("C04-drop-dotall", "src/geckolib/driver/protocol/packet.py", "            content,\n            re.DOTALL,\n        )", "            content,\n        )", ["C04"]),
    ("C04-request-format-little-endian", "src/geckolib/driver/protocol/statusblock.py", 'REQUEST_FORMAT = ">BHH"', 'REQUEST_FORMAT = "<BHH"', ["C04"]),
    ("C04-swap-src-dst", "src/geckolib/driver/protocol/packet.py", "                SRCCN_OPEN,\n                self._parms[3],\n                SRCCN_CLOSE,\n                DESCN_OPEN,\n                self._parms[2],", "                SRCCN_OPEN,\n                self._parms[2],\n                SRCCN_CLOSE,\n                DESCN_OPEN,\n                self._parms[3],", ["C04"]),
    ("C04-encode-utf8", "src/geckolib/const.py", 'MESSAGE_ENCODING = "latin1"', 'MESSAGE_ENCODING = "utf8"', ["C04", "C15"]),
    ("C05-changes-not-reset-async", "src/geckolib/driver/protocol/statusblock.py", "        change_count = struct.unpack(\">B\", remainder[0:1])[0]\n        self.changes = []\n", "        change_count = struct.unpack(\">B\", remainder[0:1])[0]\n", ["C05"]),
    ("C05-changes-not-cleared-sync", "src/geckolib/spa.py", "        else:\n            handler.changes.clear()", "        else:\n            pass", ["C05"]),
    ("C05-ack-command-range", "src/geckolib/driver/protocol/statusblock.py", "                            self._protocol.get_and_increment_sequence_counter(False),", "                            self._protocol.get_and_increment_sequence_counter(True),", ["C05", "C16"]),
    ("C06-lock-removed", "src/geckolib/driver/async_udp_protocol.py", "        _LOGGER.debug(\"Async get started\")\n        async with self.Lock:\n", "        _LOGGER.debug(\"Async get started\")\n        if True:\n", ["C06"]),
    ("C06-retry-ge0", "src/geckolib/driver/async_udp_protocol.py", "            while retry_count > 0:", "            while retry_count >= 0:", ["C06"]),
    ("C06-reuse-request", "src/geckolib/driver/async_udp_protocol.py", "            while retry_count > 0:\n\n                # Create the request\n                request = create_func()", "            request = None\n            while retry_count > 0:\n\n                # Create the request\n                request = request or create_func()", ["C06"]),
    ("C06-return-request-on-timeout", "src/geckolib/driver/async_udp_protocol.py", "            return None\n\n    def __repr__", "            return request\n\n    def __repr__", ["C06"]),
    ("C06-press-gate-dropped", "src/geckolib/async_spa.py", "        if not self.is_responding_to_pings:\n            _LOGGER.debug(\"Cannot press keypad when spa not responding to pings\")\n            return", "        if False:\n            return", ["C06"]),
    ("C07-unhandled-ignores-mark", "src/geckolib/driver/protocol/unhandled.py", "                if protocol.queue.is_marked:", "                if True:", ["C07"]),
    ("C07-identifier-check-inverted", "src/geckolib/async_spa.py", "        if handler.parms == self.sendparms:", "        if handler.parms != self.sendparms:", ["C07"]),
    ("C07-pop-keeps-mark", "src/geckolib/driver/async_peekablequeue.py", "        self.get_nowait()\n        self._marked = False", "        self.get_nowait()", ["C07"]),
    ("C08-locate-finally-dropped", "src/geckolib/async_spa_manager.py", "            del locator\n\n        finally:\n            await self._handle_event(\n                GeckoSpaEvent.LOCATING_FINISHED,", "            del locator\n\n        if True:\n            await self._handle_event(\n                GeckoSpaEvent.LOCATING_FINISHED,", ["C08"]),
    ("C08-connected-without-ready", "src/geckolib/async_spa_manager.py", "                self._spa_state = GeckoSpaState.CONNECTED\n                await self._handle_event(GeckoSpaEvent.CLIENT_FACADE_IS_READY)", "                self._spa_state = GeckoSpaState.CONNECTED", ["C08"]),
    ("C08-teardown-from-any-state", "src/geckolib/async_spa_manager.py", "        elif event == GeckoSpaEvent.RUNNING_PING_NO_RESPONSE:\n            if self._spa_state == GeckoSpaState.CONNECTED:", "        elif event == GeckoSpaEvent.RUNNING_PING_NO_RESPONSE:\n            if True:", ["C08"]),
    ("C08-reset-keeps-descriptors", "src/geckolib/async_spa_manager.py", "        \"\"\"Reset the spa manager\"\"\"\n        self._spa_descriptors = None\n", "        \"\"\"Reset the spa manager\"\"\"\n", ["C08", "C09"]),
    ("C09-ping-received-no-reset", "src/geckolib/async_spa_manager.py", "                GeckoSpaState.ERROR_NEEDS_ATTENTION,\n            ):\n                await self.async_reset()", "                GeckoSpaState.ERROR_NEEDS_ATTENTION,\n            ):\n                pass", ["C09"]),
    ("C09-ping-loop-exits-on-miss", "src/geckolib/async_spa.py", "                else:\n                    await self._event_handler(\n                        GeckoSpaEvent.RUNNING_PING_MISSED,\n                        last_ping_at=self._last_ping_at,\n                    )", "                else:\n                    await self._event_handler(\n                        GeckoSpaEvent.RUNNING_PING_MISSED,\n                        last_ping_at=self._last_ping_at,\n                    )\n                    if self._last_ping_at is not None and time.monotonic() - self._last_ping > 300:\n                        break", ["C09"]),
    ("C10-spa-tasks-not-cancelled", "src/geckolib/async_spa.py", "        self.struct.reset()\n        self._taskman.cancel_key_tasks(\"SPA\")", "        self.struct.reset()", ["C10"]),
    ("C10-locator-no-close", "src/geckolib/async_locator.py", "            self._task_man.cancel_key_tasks(\"LOC\")\n            self._transport.close()", "            self._task_man.cancel_key_tasks(\"LOC\")", ["C10", "C15"]),
    ("C10-facade-no-unwatch", "src/geckolib/automation/async_facade.py", "        for device in self.all_automation_devices:\n            device.unwatch_all()", "        pass", ["C10"]),
    ("C10-transport-close-removed", "src/geckolib/driver/async_udp_protocol.py", "            self.transport.close()\n        self.connection_lost(None)", "            pass\n        self.connection_lost(None)", ["C10"]),
    ("C11-unknown-fallback-removed", "src/geckolib/driver/accessor.py", "            try:\n                data = self.items[data]\n            except IndexError:", "            try:\n                data = self.items[data]\n            except KeyError:", ["C11"]),
    ("C12-exact-match", "src/geckolib/automation/async_facade.py", "                    if val.startswith(device)", "                    if val == device", ["C12"]),
    ("C12-wrong-class-column", "src/geckolib/automation/async_facade.py", "            if GeckoConstants.DEVICES[device[\"device\"]][3]\n            == GeckoConstants.DEVICE_CLASS_BLOWER", "            if GeckoConstants.DEVICES[device[\"device\"]][3]\n            == GeckoConstants.DEVICE_CLASS_LIGHT", ["C12"]),
    ("C13-short-circuit-inverted", "src/geckolib/automation/switch.py", "        _LOGGER.debug(\"%s async turn ON\", self.name)\n        if self.is_on:", "        _LOGGER.debug(\"%s async turn ON\", self.name)\n        if not self.is_on:", ["C13"]),
    ("C13-wrong-version-byte", "src/geckolib/async_spa.py", "                self.pack_type,\n                self.config_version,\n                self.log_version,\n                pos,", "                self.pack_type,\n                self.log_version,\n                self.config_version,\n                pos,", ["C13"]),
    ("C14-divide-16", "src/geckolib/driver/accessor.py", "            temp = temp / 18.0", "            temp = temp / 16.0", ["C14"]),
    ("C14-limits-swapped", "src/geckolib/automation/heater.py", "            self.MIN_TEMP_C\n            if self._temperature_unit_accessor.value == \"C\"\n            else self.MIN_TEMP_F", "            self.MIN_TEMP_F\n            if self._temperature_unit_accessor.value == \"C\"\n            else self.MIN_TEMP_C", ["C14"]),
    ("C15-dedup-removed", "src/geckolib/async_locator.py", "        if handler.spa_identifier in self._spa_identifiers:\n            return", "        if False:\n            return", ["C15"]),
    ("C15-filter-on-name", "src/geckolib/async_locator.py", "            if self._spa_identifier != handler.spa_identifier.decode(\n                GeckoConstants.MESSAGE_ENCODING\n            ):", "            if self._spa_identifier != handler.spa_name:", ["C15"]),
    ("C16-wrap-at-190", "src/geckolib/driver/async_udp_protocol.py", "            if self._sequence_counter_protocol == 191:", "            if self._sequence_counter_protocol == 190:", ["C16"]),
    ("C16-lock-removed", "src/geckolib/driver/udp_socket.py", "    def get_and_increment_sequence_counter(self, command: bool):\n        with self._lock:", "    def get_and_increment_sequence_counter(self, command: bool):\n        if True:", ["C16"]),
    ("C16-watercare-request-command-range", "src/geckolib/async_spa.py", "        return GeckoWatercareProtocolHandler.request(\n            self._protocol.get_and_increment_sequence_counter(False),", "        return GeckoWatercareProtocolHandler.request(\n            self._protocol.get_and_increment_sequence_counter(True),", ["C16"]),
    ("C17-subset-of-members", "src/geckolib/config.py", "    for member in CONFIG_MEMBERS:", "    for member in CONFIG_MEMBERS[:-2]:", ["C17"]),
    ("C17-future-not-resolved", "src/geckolib/config.py", "    if not ConfigChange.done():\n        ConfigChange.set_result(True)", "    pass", ["C17"]),
    ("C18-one-pos-changed", "src/geckolib/driver/packs/inyt-cfg-50.py", '"SetpointG": GeckoTempStructAccessor(self.struct, "SetpointG", 1, "ALL")', '"SetpointG": GeckoTempStructAccessor(self.struct, "SetpointG", 2, "ALL")', ["C18"]),
    ("C19-hex-list-off-by-one", "src/geckolib/utils/snapshot.py", "bytearray([int(b.strip()[1:-1], 16) for b in groups[0].split(\",\")])", "bytearray([int(b.strip()[1:-1], 16) for b in groups[0].split(\",\")][:-1] + [0])", ["C19"]),
    ("C20-pop-last", "src/geckolib/driver/udp_socket.py", "                    send_handler = self._send_handlers.pop(0)", "                    send_handler = self._send_handlers.pop()", ["C20"]),
    ("C20-throttle-removed", "src/geckolib/driver/udp_socket.py", "        if (time.monotonic() - self._last_send_time) < (\n            1.0 / self._SENDING_THROTTLE_RATE_PER_SECOND\n        ):\n            return", "        if False:\n            return", ["C20"]),
    ("C20-exception-not-caught", "src/geckolib/driver/udp_socket.py", "                except Exception:\n                    _LOGGER.exception(\"Unhandled exception in receive_handler func\")", "                except KeyError:\n                    _LOGGER.exception(\"Unhandled exception in receive_handler func\")", ["C20"]),
    ("C20-retry-count-off-by-one", "src/geckolib/driver/udp_protocol_handler.py", "        if self._retry_count == 0:\n            return False", "        if self._retry_count <= 1:\n            return False", ["C20"]),
]


def sh(*a, **k):
    return subprocess.run(a, stdout=subprocess.PIPE, stderr=subprocess.STDOUT, **k)


def main():
    flt = sys.argv[1] if len(sys.argv) > 1 else ""
    sh("git", "-C", "/repo", "worktree", "remove", "--force", WT)
    r = sh("git", "-C", "/repo", "worktree", "add", "--detach", WT, "HEAD")
    if r.returncode:
        print(r.stdout.decode())
        return 2
    env = dict(os.environ, VERIF_REPO=WT)
    results = []
    import shutil

    bak = os.path.join(HERE, ".cache", "evidence.bak")
    shutil.rmtree(bak, ignore_errors=True)
    shutil.copytree(os.path.join(HERE, "evidence"), bak)
    try:
        for mid, path, old, new, checks in M:
            if flt and flt not in mid:
                continue
            sh("git", "-C", WT, "checkout", "--", ".")
            fp = os.path.join(WT, path)
            s = open(fp).read()
            if old not in s:
                print(f"{mid}: PATTERN NOT FOUND in {path}")
                results.append((mid, "pattern-not-found", {}))
                continue
            open(fp, "w").write(s.replace(old, new, 1))
            t = sh("/venv/bin/python", "-m", "pytest", "-q", "-p", "no:cacheprovider", "-x", "tests", cwd=WT)
            tests_ok = t.returncode == 0
            res = {}
            for c in checks:
                p = sh(os.path.join(HERE, "check"), c, "--tier", "quick", env=env, cwd=HERE)
                out = p.stdout.decode()
                keys = sorted({l.split("violated: ")[1].split(": ")[0] for l in out.splitlines() if "violated: " in l})
                res[c] = (p.returncode, keys[:3])
            print(mid, "tests_pass=%s" % tests_ok, res, flush=True)
            results.append((mid, tests_ok, res))
    finally:
        shutil.rmtree(os.path.join(HERE, "evidence"), ignore_errors=True)
        shutil.copytree(bak, os.path.join(HERE, "evidence"))
        sh("git", "-C", "/repo", "worktree", "remove", "--force", WT)
        sh("git", "-C", "/repo", "worktree", "prune")
    json.dump(results, open(os.path.join(HERE, ".cache", "mutants.json"), "w"), indent=1, default=str)
    missed = [m for m, t, r in results if isinstance(r, dict) and r and not any(v[0] == 1 for v in r.values())]
    print("MISSED:", missed)


if __name__ == "__main__":
    sys.exit(main())
