"""Run every seeded change against the check(s) of its property and write seeded/CATCH.md
and the caught_by field of each meta.json.  Usage: python tools/catch_matrix.py [extra check ids per seed...]"""
import json
import os
import subprocess
import sys

HERE = os.path.dirname(os.path.dirname(os.path.abspath(__file__)))
EXTRA = {"C13-async-bitpos-zero-no-merge": ["C02"], "C18-maxitems-ge8": ["C02", "C03"], "C02-maxitems-ge8": ["C18", "C03"], "C20-retry-keeps-segments": ["C01"], "C15-name-decoded-utf8": ["C04"], "C16-read-outside-lock": [], "C09-cancel-before-disconnect-event": ["C08"], "C08-cancel-before-disconnect-event": ["C09"], "C10-locator-early-out": ["C15"], "C01-segments-hoisted": ["C05"], "C17-facade-mode-cache": [], "R5-C03-async-statp-keeps-changes": ["C05"], "R5-C05-packet-regex-no-dotall": ["C04", "C09"], "R5-C08-cancel-key-prefix": ["C09"], "R5-C06-wait-for-cancels-shared-future": ["C17"], "R6-C03-async-install-per-segment": ["C01"], "R6-C08-return-in-finally": ["C10"], "R6-C11-config-devices-aliased": ["C12"], "R6-C12-remove-while-iterating": ["C11"], "R6-C20-handled-wallclock": ["C01"], "R8-C18-async-refuses-RD-writability": ["C02"], "R8-C11-strict-decoder-unknown-in-property-only": ["C03"], "R8-C18-build-accessors-accumulates": ["C19"], "R10-C06-struct-get-state-across-retries": ["C01"]}
SEEDS = [int(x) for x in os.environ.get("CHECK_SEEDS", "0").split(",")]
rows = []
for sid in sorted(os.listdir(os.path.join(HERE, "seeded"))):
    d = os.path.join(HERE, "seeded", sid)
    if not os.path.isdir(d):
        continue
    meta = json.load(open(os.path.join(d, "meta.json")))
    prop = meta["property"]
    if len(sys.argv) > 1 and not (any(sid.startswith(f[1:]) for f in sys.argv[1].split(",") if f.startswith("^")) or any(f in sid for f in sys.argv[1].split(",") if not f.startswith("^"))):
        continue
    caught = {}
    if meta.get("neutralised_by"):
        rows.append((sid, prop, {k: dict(v, exit=str(v["exit"]) + " (before fix " + meta["neutralised_by"]["fix"] + "; neutralised by it)") for k, v in meta["caught_by"].items()}))
        continue
    for chk in [prop] + EXTRA.get(sid, []):
        rcs, keys = [], set()
        for cs in SEEDS if chk == prop else SEEDS[:1]:
            p = subprocess.run([os.path.join(HERE, "tools", "try_seed_wt.sh"), sid, chk], stdout=subprocess.PIPE, stderr=subprocess.STDOUT, env=dict(os.environ, LINES_SHOWN="40", CHECK_SEED=str(cs)))
            out = p.stdout.decode()
            keys |= {l.split("violated: ")[1].split(": ")[0] for l in out.splitlines() if "violated: " in l}
            rcs.append(int(out.strip().splitlines()[-1].split("exit=")[1]) if "exit=" in out else -1)
        keys = sorted(keys)
        # caught = caught under every check seed tried (a catch that depends on the draw is reported as such)
        rc = 1 if all(x == 1 for x in rcs) else (rcs[0] if len(set(rcs)) == 1 else "/".join(map(str, rcs)))
        caught[chk] = {"exit": rc, "keys": keys[:6], "check_seeds": SEEDS if chk == prop else SEEDS[:1]}
        print(sid, chk, rc, keys[:3], flush=True)
    meta["caught_by"] = {k: v for k, v in caught.items()}
    json.dump(meta, open(os.path.join(d, "meta.json"), "w"), indent=1)
    rows.append((sid, prop, caught))
with open(os.path.join(HERE, "seeded", "CATCH.md"), "w") as f:
    f.write("# Seeded changes vs checks (quick tier; own property's check under every seed of CHECK_SEEDS, extra checks under the first)\n\nexit 1 = caught (VIOLATION line), 0 = missed, 2 = inconclusive. Keys are the mechanism fingerprints reported.\n\n| seeded change | property | check | exit | fingerprints |\n|---|---|---|---|---|\n")
    # the table is rebuilt from every seed's recorded result, so a filtered run only refreshes its rows
    for sid in sorted(os.listdir(os.path.join(HERE, "seeded"))):
        mp = os.path.join(HERE, "seeded", sid, "meta.json")
        if not os.path.isfile(mp):
            continue
        meta = json.load(open(mp))
        note = (" (before fix " + meta["neutralised_by"]["fix"] + "; neutralised by it)") if meta.get("neutralised_by") else ""
        for chk, v in (meta.get("caught_by") or {}).items():
            f.write(f"| {sid} | {meta['property']} | {chk} | {v['exit']}{note} | {', '.join(v['keys'][:4])} |\n")
