"""Behaviour-preserving changes of gazoodle/geckolib (constants the properties do not fix, renamed
locals, reordered independent statements...) applied to a scratch worktree: every check must stay
silent (exit 0).  A check that alarms here demands more than its property states.
Usage: python tools/benign.py [substring filter]"""
import os
import shutil
import subprocess
import sys

HERE = os.path.dirname(os.path.dirname(os.path.abspath(__file__)))
WT = "/tmp/geckolib-benign"
ALL = ["C%02d" % i for i in range(1, 21)]
B = [
    ("poll-interval-50ms", "src/geckolib/const.py", "ASYNCIO_SLEEP_TIMEOUT_FOR_YIELD = 0.1", "ASYNCIO_SLEEP_TIMEOUT_FOR_YIELD = 0.05", ALL),
    ("throttle-100-per-second", "src/geckolib/driver/udp_socket.py", "_SENDING_THROTTLE_RATE_PER_SECOND = 50", "_SENDING_THROTTLE_RATE_PER_SECOND = 100", ["C01", "C05", "C13", "C16", "C19", "C20", "C06", "C08"]),
    ("protocol-timeout-3s", "src/geckolib/config.py", "    PROTOCOL_TIMEOUT_IN_SECONDS = 4\n    PROTOCOL_RETRY_COUNT = 10\n    PAUSE_BETWEEN_RETRIES_IN_SECONDS = 2\n\n\n@dataclass\nclass _GeckoIdleConfig", "    PROTOCOL_TIMEOUT_IN_SECONDS = 3\n    PROTOCOL_RETRY_COUNT = 10\n    PAUSE_BETWEEN_RETRIES_IN_SECONDS = 2\n\n\n@dataclass\nclass _GeckoIdleConfig", ["C06", "C08", "C09", "C10", "C17"]),
    ("simulator-segment-50", "src/geckolib/utils/simulator.py", "_STATUS_BLOCK_SEGMENT_SIZE = 39", "_STATUS_BLOCK_SEGMENT_SIZE = 50", ["C01", "C05", "C19", "C20", "C08", "C09"]),
    ("log-messages-and-local-names", "src/geckolib/driver/async_spastruct.py", "                next_expected = 0\n                segments = []", "                next_expected = 0\n                segments = list()", ["C01", "C05"]),
    ("ping-frequency-idle-45", "src/geckolib/config.py", "    PING_FREQUENCY_IN_SECONDS = 60\n", "    PING_FREQUENCY_IN_SECONDS = 45\n", ["C06", "C08", "C09", "C10", "C17"]),
]


def sh(*a, **k):
    return subprocess.run(a, stdout=subprocess.PIPE, stderr=subprocess.STDOUT, **k)


def main():
    flt = sys.argv[1] if len(sys.argv) > 1 else ""
    sh("git", "-C", "/repo", "worktree", "remove", "--force", WT)
    if sh("git", "-C", "/repo", "worktree", "add", "--detach", WT, "HEAD").returncode:
        return 2
    env = dict(os.environ, VERIF_REPO=WT)
    bak = os.path.join(HERE, ".cache", "evidence.bak2")
    shutil.rmtree(bak, ignore_errors=True)
    shutil.copytree(os.path.join(HERE, "evidence"), bak)
    alarms = []
    try:
        for bid, path, old, new, checks in B:
            if flt and flt not in bid:
                continue
            sh("git", "-C", WT, "checkout", "--", ".")
            fp = os.path.join(WT, path)
            s = open(fp).read()
            if old not in s:
                print(bid, "PATTERN NOT FOUND")
                continue
            open(fp, "w").write(s.replace(old, new, 1))
            t = sh("/venv/bin/python", "-m", "pytest", "-q", "-p", "no:cacheprovider", "-x", "tests", cwd=WT)
            res = {}
            for c in checks:
                p = sh(os.path.join(HERE, "check"), c, "--tier", "quick", env=env, cwd=HERE)
                out = p.stdout.decode()
                res[c] = p.returncode
                if p.returncode != 0:
                    alarms.append((bid, c, [l for l in out.splitlines() if "violated:" in l or "INCONCLUSIVE" in l][:3]))
            print(bid, "tests_pass=%s" % (t.returncode == 0), res, flush=True)
    finally:
        shutil.rmtree(os.path.join(HERE, "evidence"), ignore_errors=True)
        shutil.copytree(bak, os.path.join(HERE, "evidence"))
        sh("git", "-C", "/repo", "worktree", "remove", "--force", WT)
        sh("git", "-C", "/repo", "worktree", "prune")
    print("ALARMS:", alarms)


if __name__ == "__main__":
    sys.exit(main())
