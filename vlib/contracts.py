"""Ambient runtime contracts (icontract) on the real classes.

Installed once per harness process by the peer-based checks, so that every workload
also exercises these invariants, whatever property it was written for.  The
conditions *record and return True* (a raising contract inside a consumer task would
change the behaviour it observes); each contract counts its evaluations and a check
whose ambient contracts were never evaluated says so.

  A1  after replace_status_block_segment(offset, segment) with the segment inside the
      block, the block has the length it had before - 1024 bytes on every connection (both
      structure classes; the repository's own tests, run with the contracts on, use 23-byte
      blocks: the first form of A1, "still 1024 bytes", fired on them - read, and generalised);
  A2  get_and_increment_sequence_counter returns the cycle successor of the previous
      result of the same kind on the same object (both counter classes);
A violation is *reported* only by the checks whose property states the invariant (A1:
C01 and C05, A2: C16); elsewhere it is counted as an observation, so that no check
demands more than its own property.
"""
from __future__ import annotations

import weakref

BROKEN = []  # (contract id, description, witness)
EVALS = {"A1": 0, "A2": 0}
_installed = False
_last = weakref.WeakKeyDictionary()


def _block_len(self):
    return len(self.status_block)


def _a1(self, offset, segment, OLD):
    EVALS["A1"] += 1
    if 0 <= offset and offset + len(segment) <= OLD.n and len(self.status_block) != OLD.n:
        if len(BROKEN) < 20:
            BROKEN.append(("A1:block-length", f"{type(self).__name__}: block is {len(self.status_block)} bytes after replacing {len(segment)} byte(s) at {offset}", {"offset": offset, "segment_len": len(segment), "block_len": len(self.status_block)}))
    return True


def _a2(self, command, result):
    EVALS["A2"] += 1
    prev = _last.setdefault(self, {}).get(bool(command))
    if command:
        exp = 192 if prev in (None, 255) else prev + 1
    else:
        exp = 1 if prev in (None, 191) else prev + 1
    if result != exp and len(BROKEN) < 20:
        BROKEN.append(("A2:sequence-successor", f"{type(self).__name__}: {'command' if command else 'protocol'} number after {prev} was {result} (expected {exp})", {"previous": prev, "got": result, "expected": exp}))
    _last[self][bool(command)] = result
    return True


class ContractBroken(Exception):
    pass


def install():
    """Idempotent.  Returns False (contracts unavailable -> inconclusive) if icontract is missing."""
    global _installed
    if _installed:
        return True
    try:
        import icontract
    except ImportError:
        return False
    from geckolib.driver import GeckoAsyncStructure, GeckoAsyncUdpProtocol, GeckoStructure, GeckoUdpSocket

    for cls in (GeckoAsyncStructure, GeckoStructure):
        cls.replace_status_block_segment = icontract.snapshot(_block_len, name="n")(icontract.ensure(_a1, error=ContractBroken)(cls.replace_status_block_segment))
    for cls in (GeckoAsyncUdpProtocol, GeckoUdpSocket):
        cls.get_and_increment_sequence_counter = icontract.ensure(_a2, error=ContractBroken)(cls.get_and_increment_sequence_counter)
    _installed = True
    return True


def report(sh, prop):
    """Move what the ambient contracts saw into the shard accumulator."""
    sh.counters["ambient_contract_evaluations_A1_block_length"] = sh.counters.get("ambient_contract_evaluations_A1_block_length", 0) + EVALS["A1"]
    sh.counters["ambient_contract_evaluations_A2_sequence_successor"] = sh.counters.get("ambient_contract_evaluations_A2_sequence_successor", 0) + EVALS["A2"]
    EVALS["A1"] = EVALS["A2"] = 0
    owners = {"A1": ("C01", "C05"), "A2": ("C16",)}
    for cid, what, wit in BROKEN:
        if prop in owners[cid.split(":")[0]]:
            sh.violation(f"{prop}:ambient:{cid}", "ambient contract: " + what, wit)
        else:
            # the invariant belongs to another property's statement: observation only
            sh.count(f"ambient_{cid.split(':')[0]}_observations_outside_this_property")
    del BROKEN[:]
