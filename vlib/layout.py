"""Canonical layout record of every shipped table module (used by C18 and the pin)."""
from __future__ import annotations

from . import tables


def _props(obj, names):
    out = {}
    for n in names:
        try:
            v = getattr(obj, n)
        except AttributeError:
            continue
        out[n] = list(v) if isinstance(v, (list, tuple)) else v
    return out


def item_record(acc):
    d = acc._verif_decl
    return {
        "cls": type(acc).__name__,
        "pos": d["pos"],
        "type": d["type"],
        "bitpos": d["bitpos"],
        "items": d["items"],
        "size": d["size"],
        "maxitems": d["maxitems"],
        "rw": d["rw"],
        # what the accessor object publishes for those declarations
        "pub_pos": acc.pos,
        "pub_length": acc.length,
        "pub_format": acc.format,
        "pub_bitpos": acc.bitpos,
        "pub_bitmask": getattr(acc, "bitmask", None),
        "pub_items": list(acc.items) if acc.items is not None else None,
        "pub_rw": acc.read_write,
        "pub_tag": acc.tag,
    }


def module_record(stem, struct_):
    """Return {'kind', 'table': {...}, 'items': {dict key: record}} for one module."""
    mod = tables.import_stem(stem)
    plat, kind, ver = tables.split_stem(stem)
    if kind is None:
        pack = mod.GeckoPack(struct_)
        return {"kind": "pack", "table": _props(pack, ["name", "type", "revision"]), "items": {}}
    if kind == "cfg":
        t = mod.GeckoConfigStruct(struct_)
        table = _props(t, ["version", "output_keys"])
    else:
        t = mod.GeckoLogStruct(struct_)
        table = _props(t, ["version", "begin", "end", "all_device_keys", "user_demand_keys", "error_keys"])
    items = {k: item_record(a) for k, a in t.accessors.items()}
    return {"kind": kind, "table": table, "items": items}


def full_layout():
    from geckolib.driver import GeckoAsyncStructure

    tables.install_decl_capture()
    st = GeckoAsyncStructure(None, None)
    packs, cfgs, logs = tables.module_stems()
    return {stem: module_record(stem, st) for stem in packs + cfgs + logs}
