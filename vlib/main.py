"""python -m vlib.main <ID> [--tier quick|thorough] [--seed N] [--replay FILE]"""
import argparse
import importlib
import logging
import os
import sys
import traceback


def main():
    ap = argparse.ArgumentParser()
    ap.add_argument("prop")
    ap.add_argument("--tier", default=os.environ.get("VERIF_TIER") or "quick")
    ap.add_argument("--seed", type=int, default=None)
    ap.add_argument("--replay", default=None)
    a = ap.parse_args()
    seed = a.seed
    if seed is None:
        try:
            seed = int(os.environ.get("VERIF_SEED", "0") or 0)
        except ValueError:
            seed = 0
    if a.tier not in ("quick", "thorough"):
        a.tier = "quick"
    logging.disable(logging.CRITICAL)
    prop = a.prop.upper()
    try:
        mod = importlib.import_module("checks." + prop.lower())
    except ModuleNotFoundError as e:
        print(f"INCONCLUSIVE property={prop} no such check ({e})")
        return 2
    try:
        if a.replay:
            return mod.replay(a.replay)
        return mod.main(a.tier, seed)
    except Exception:
        # trouble in harness code (anything raised by geckolib inside a monitored
        # operation is caught and classified by the check itself)
        traceback.print_exc()
        print(f"INCONCLUSIVE property={prop} harness error, see traceback")
        return 2


if __name__ == "__main__":
    sys.exit(main())
