"""Deterministic baton scheduler for the threaded stack (DESIGN.md 2.6).

The names threading.Thread / threading.Event *as seen by* geckolib.driver.udp_socket,
geckolib.spa, geckolib.automation.facade and geckolib.locator are replaced by managed
versions.  Threads are real OS threads running the real _thread_func /
_ping_thread_func / _update_thread_func, but exactly one holds the baton.  A thread
gives it up only at its genuine blocking points - mock socket.recvfrom(timeout),
Event.wait(timeout), Thread.join - where it registers a condition and a virtual wake
time; the scheduler delivers due datagrams, picks a ready thread (seeded tie-break) or
advances the virtual clock to the earliest wake time.
"""
from __future__ import annotations

import collections
import socket
import threading as _real
import time as _time

from .aworld import REAL_MONOTONIC, Clock

MODULES = ("geckolib.driver.udp_socket", "geckolib.spa", "geckolib.automation.facade", "geckolib.locator")


class Deadlock(Exception):
    pass


class Stuck(Exception):
    """real-time watchdog: the harness (not the library) is stuck -> inconclusive"""


class Sched:
    def __init__(self, r, regime_cost=(1e-6, 50e-6), real_timeout=60.0):
        self.r = r
        self.clock = Clock(r, cost=regime_cost)
        self.threads = []
        self.pending = []  # (time, seq, callable)
        self._seq = 0
        self.handoffs = 0
        self.real_timeout = real_timeout
        self.errors = []  # (thread name, exception)
        self.main = MThread(self, name="main", is_main=True)
        self.current = self.main
        self.closed = False
        self._installed = {}
        self.default_net = None

    # ---- installation
    def install(self):
        import importlib

        _time.monotonic = self.clock
        sched = self

        class Shim:
            Lock = _real.Lock
            RLock = _real.RLock
            local = _real.local
            current_thread = staticmethod(_real.current_thread)

            @staticmethod
            def Thread(*a, **k):
                return MThread(sched, *a, **k)

            @staticmethod
            def Event():
                return MEvent(sched)

        for m in MODULES:
            mod = importlib.import_module(m)
            self._installed[m] = mod.threading
            mod.threading = Shim
        # GeckoUdpSocket.__enter__ creates socket.socket(...) when it was given none: hand out
        # mock sockets of the current virtual network instead
        us = importlib.import_module("geckolib.driver.udp_socket")
        self._real_socket_mod = us.socket

        class SockShim:
            AF_INET, SOCK_DGRAM, IPPROTO_UDP, SOL_SOCKET, SO_BROADCAST = socket.AF_INET, socket.SOCK_DGRAM, socket.IPPROTO_UDP, socket.SOL_SOCKET, socket.SO_BROADCAST
            timeout = socket.timeout

            @staticmethod
            def socket(*a, **k):
                if sched.default_net is None:
                    raise OSError("no virtual network for an implicitly created socket")
                return sched.default_net.socket(implicit=True)  # a socket the library opened itself

        us.socket = SockShim
        return self

    def uninstall(self):
        import importlib

        for m, orig in self._installed.items():
            importlib.import_module(m).threading = orig
        if getattr(self, "_real_socket_mod", None) is not None:
            importlib.import_module("geckolib.driver.udp_socket").socket = self._real_socket_mod
        _time.monotonic = REAL_MONOTONIC

    # ---- time and deliveries
    @property
    def now(self):
        return self.clock.now()

    def at(self, t, fn):
        self._seq += 1
        self.pending.append((t, self._seq, fn))

    def _deliver_due(self):
        if not self.pending:
            return
        due = sorted([p for p in self.pending if p[0] <= self.clock.t])
        if due:
            self.pending = [p for p in self.pending if p[0] > self.clock.t]
            for _, _, fn in due:
                fn()

    # ---- the baton
    def block(self, cond=None, wake_at=None):
        """Called by the thread holding the baton: give it up until cond() or wake_at."""
        me = self.current
        assert me.is_current_os_thread(), "block() called by a thread that does not hold the baton"
        me.cond, me.wake_at, me.blocked = cond, wake_at, True
        self._switch(me)

    def _pick(self):
        while True:
            self._deliver_due()
            ready = []
            for t in self.threads:
                if t.done or not t.blocked:
                    continue
                if (t.cond is not None and t.cond()) or (t.wake_at is not None and t.wake_at <= self.clock.t):
                    ready.append(t)
            if ready:
                return ready[0] if len(ready) == 1 else self.r.choice(ready)
            times = [t.wake_at for t in self.threads if not t.done and t.blocked and t.wake_at is not None]
            times += [p[0] for p in self.pending]
            if not times:
                raise Deadlock("all managed threads are blocked without a wake time")
            self.clock.t = max(self.clock.t, min(times))

    def _switch(self, me):
        try:
            nxt = self._pick()
        except Deadlock:
            nxt = self.main
            self.main.deadlock = True
            if me is self.main:
                me.blocked = False
                raise
        self.handoffs += 1
        nxt.blocked = False
        self.current = nxt
        if nxt is me:
            return
        nxt.sem.release()
        if me.done:
            return
        if not me.sem.acquire(timeout=self.real_timeout):
            raise Stuck(f"thread {me.name} waited {self.real_timeout}s of real time for the baton")
        if me is self.main and getattr(self.main, "deadlock", False):
            self.main.deadlock = False
            raise Deadlock("all managed threads are blocked without a wake time")

    # ---- harness API (main thread)
    def run_until(self, cond, timeout):
        """Let the managed threads run until cond() or `timeout` virtual seconds."""
        end = self.clock.t + timeout
        while not cond():
            if self.clock.t >= end:
                return False
            self.block(cond, min(end, self.clock.t + 0.05))
        return True

    def sleep(self, dt):
        end = self.clock.t + dt
        while self.clock.t < end:
            self.block(None, end)

    def close(self):
        self.closed = True
        self.uninstall()


class MThread:
    def __init__(self, sched, group=None, target=None, name=None, args=(), kwargs=None, daemon=None, is_main=False):
        self.sched = sched
        self.target, self.args, self.kwargs = target, args, kwargs or {}
        self.name = name or f"T{len(sched.threads)}:{getattr(target, '__name__', '?')}"
        self.daemon = daemon
        self.sem = _real.Semaphore(0)
        self.done = False
        self.started = is_main
        self.blocked = False
        self.cond = None
        self.wake_at = None
        self.os_thread = _real.current_thread() if is_main else None
        self.exc = None
        sched.threads.append(self)

    def is_current_os_thread(self):
        return _real.current_thread() is self.os_thread

    def start(self):
        if self.started:
            raise RuntimeError("threads can only be started once")
        self.started = True
        self.blocked = True  # runnable as soon as the scheduler picks it
        self.cond = lambda: True
        self.os_thread = _real.Thread(target=self._run, daemon=True, name=self.name)
        self.os_thread.start()

    def _run(self):
        if not self.sem.acquire(timeout=self.sched.real_timeout * 5):
            return
        try:
            if self.target is not None:
                self.target(*self.args, **self.kwargs)
        except BaseException as e:  # noqa
            self.exc = e
            self.sched.errors.append((self.name, e))
        finally:
            self.done = True
            self.blocked = False
            try:
                self.sched._switch(self)
            except BaseException as e:  # noqa
                self.sched.errors.append((self.name + ":exit", e))
                self.sched.main.deadlock = True
                self.sched.current = self.sched.main
                self.sched.main.sem.release()

    def join(self, timeout=None):
        if not self.started:
            raise RuntimeError("cannot join thread before it is started")
        s = self.sched
        end = None if timeout is None else s.clock.t + timeout
        while not self.done:
            if end is not None and s.clock.t >= end:
                return
            s.block(lambda: self.done, end)

    def is_alive(self):
        return self.started and not self.done


class MEvent:
    def __init__(self, sched):
        self.sched = sched
        self._flag = False

    def is_set(self):
        return self._flag

    def set(self):
        self._flag = True

    def clear(self):
        self._flag = False

    def wait(self, timeout=None):
        s = self.sched
        if self._flag:
            return True
        end = None if timeout is None else s.clock.t + max(0.0, timeout)
        while not self._flag:
            if end is not None and s.clock.t >= end:
                break
            s.block(lambda: self._flag, end)
        return self._flag


class TNet:
    """Virtual datagram network between mock sockets of the threaded world."""

    def __init__(self, sched, latency=(0.0005, 0.003)):
        self.sched, self.r = sched, sched.r
        self.latency = latency
        self.socks = {}  # addr -> MockSocket
        self.fault = None  # callable(record) -> list of delays or None
        self.log = []  # dicts: id, t, src, dst, data, verb, fate
        self._port = 50000
        self.created = []  # every mock socket handed out (the library must close the ones it made)
        sched.default_net = self

    def socket(self, addr=None, implicit=False):
        if addr is None:
            self._port += 1
            addr = ("10.0.0.2", self._port)
        s = MockSocket(self, addr)
        s.implicit = implicit
        self.socks[addr] = s
        self.created.append(s)
        return s

    def send(self, src_sock, data, addr):
        from .aworld import verb_of

        targets = [a for a in self.socks if a[1] == addr[1] and a != src_sock.addr] if addr[0] in ("<broadcast>", "255.255.255.255") else [tuple(addr[:2])]
        for a in targets:
            rec = {"id": len(self.log), "t": self.sched.now, "src": src_sock.addr, "dst": a, "data": bytes(data), "verb": verb_of(bytes(data)), "fate": None}
            self.log.append(rec)
            delays = self.fault(rec) if self.fault is not None else None
            if delays is None:
                delays = [self.r.uniform(*self.latency)]
            rec["fate"] = list(delays)
            dst = self.socks.get(a)
            if dst is None:
                rec["fate"] = "no-such-peer"
                continue
            for dl in delays:
                self.sched.at(self.sched.now + dl, (lambda d=dst, data=bytes(data), src=src_sock.addr: d.inbox.append((data, src)) if not d.closed else None))


class MockSocket:
    def __init__(self, net, addr):
        self.net, self.addr = net, addr
        self.inbox = collections.deque()
        self.timeout = None
        self.closed = False
        self.sent = []  # (t, data, addr)
        self.options = set()
        self.fail_sends = []  # datagram contents whose next sendto raises OSError (harness-armed)
        self.refused = []

    def settimeout(self, t):
        self.timeout = t

    def setsockopt(self, *a):
        self.options.add(tuple(a[:3]))

    def bind(self, addr):
        pass

    def sendto(self, data, addr):
        if self.closed:
            raise OSError("socket closed")
        if self.fail_sends and self.fail_sends[0] == bytes(data):
            # the OS refuses this one datagram (no route at that instant)
            self.fail_sends.pop(0)
            self.refused.append(bytes(data))
            raise OSError(101, "Network is unreachable")
        if addr[0] in ("<broadcast>", "255.255.255.255") and (socket.SOL_SOCKET, socket.SO_BROADCAST, 1) not in self.options:
            raise PermissionError(13, "Permission denied")  # what the OS says without SO_BROADCAST
        self.sent.append((self.net.sched.now, bytes(data), tuple(addr[:2])))
        self.net.send(self, data, addr)
        return len(data)

    def recvfrom(self, bufsize):
        s = self.net.sched
        if self.closed:
            raise OSError("socket closed")
        if not self.inbox:
            end = None if self.timeout is None else s.clock.t + self.timeout
            s.block(lambda: bool(self.inbox) or self.closed, end)
        if self.closed:
            raise OSError("socket closed")
        if not self.inbox:
            raise socket.timeout("timed out")
        return self.inbox.popleft()

    def close(self):
        self.closed = True
