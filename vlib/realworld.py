"""The real world: the unmodified simulator on its own engine THREAD with a real UDP socket on
127.0.0.1 (ephemeral port), the unmodified async client on a real asyncio selector loop.

Nothing of the virtual-time model (VLoop / FakeTransport / Net) is involved; this is the
cross-check of that model for the peer-based checks, and a stress of the real thing: several
client/simulator pairs share one process and one loop.  Faults are applied by a delegating
wrapper around the simulator's OS socket object (drop / duplicate / delay by datagram), i.e.
outside the library on the spa's side of the wire.

Only timing-independent clauses may be judged on executions made here (the box may be loaded:
a wall-clock timeout firing early is not a verdict)."""
from __future__ import annotations

import asyncio
import contextlib
import io
import os
import socket
import threading
import time
from types import SimpleNamespace

from .aworld import quiet_simulator, snapshot_dir


def verb_of(data: bytes) -> str:
    i = data.find(b"<DATAS>")
    if i < 0:
        return data[:5].decode("latin-1")
    return data[i + 7 : i + 12].decode("latin-1")


class FaultSock:
    """Delegates to the simulator's real OS socket; `fault(d)` (same contract as Net.fault in the
    virtual world: None = deliver, [] = drop, [delays...] = one delivery per delay) decides."""

    def __init__(self, real):
        self._real = real
        self.fault = None
        self.on_receive = None
        self.rx = []  # (t, data, src) as taken off the OS socket
        self.tx = []  # (t, data, dest) as handed to the OS socket
        self._again = []
        self._lock = threading.Lock()
        self.timers = []

    def __getattr__(self, name):
        return getattr(self._real, name)

    def recvfrom(self, n):
        with self._lock:
            if self._again:
                return self._again.pop(0)
        data, src = self._real.recvfrom(n)
        self.rx.append((time.monotonic(), data, src))
        if self.on_receive is not None:
            self.on_receive(data, src)
        f = self.fault
        if f is not None:
            plan = f(SimpleNamespace(dir="c2s", verb=verb_of(data), data=data))
            if plan is not None:
                if not plan:
                    raise socket.timeout()
                with self._lock:
                    self._again.extend((data, src) for _ in plan[1:])
        return data, src

    def _send(self, data, dest):
        try:
            self.tx.append((time.monotonic(), data, dest))
            self._real.sendto(data, dest)
        except OSError:
            pass

    def sendto(self, data, dest):
        f = self.fault
        plan = f(SimpleNamespace(dir="s2c", verb=verb_of(data), data=data)) if f is not None else None
        if plan is None:
            self._send(data, dest)
            return len(data)
        for delay in plan:
            if delay <= 0.002:
                self._send(data, dest)
            else:
                t = threading.Timer(delay, self._send, (data, dest))
                t.daemon = True
                t.start()
                self.timers.append(t)
        return len(data)


class RealSim:
    def __init__(self, snapshot="default.snapshot", sim_cls=None):
        from geckolib.utils.snapshot import GeckoSnapshot

        path = snapshot if os.path.isabs(snapshot) else os.path.join(snapshot_dir(), snapshot)
        self.sim = quiet_simulator(sim_cls)
        with contextlib.redirect_stdout(io.StringIO()):
            self.sim.set_snapshot(GeckoSnapshot.parse_log_file(path)[0])
        es = self.sim._socket
        # the engine's own open(): creates the OS socket and starts the engine thread; the harness
        # binds to an ephemeral loopback port instead of the fixed one so that runs can coexist
        es.open()
        es._socket.bind(("127.0.0.1", 0))
        self.addr = es._socket.getsockname()
        self.sock = FaultSock(es._socket)
        es._socket = self.sock
        self.engine = es

    @property
    def block(self):
        return self.sim.structure.status_block

    def set_block(self, block: bytes):
        self.sim.structure.set_status_block(bytes(block))

    def say(self, handler, dest):
        self.engine.queue_send(handler, dest)

    def close(self):
        for t in self.sock.timers:
            t.cancel()
        with contextlib.suppress(Exception):
            self.engine.close()


class RealRig:
    """One real client connected (real handshake) to one RealSim, on the running loop."""

    def __init__(self, n=0, snapshot="default.snapshot", sim_cls=None):
        self.sim = RealSim(snapshot, sim_cls)
        self.events = []
        self.n = n
        self.spa = None
        self.taskman = None

    async def handle_event(self, event, **kw):
        self.events.append((event, time.monotonic(), kw))

    async def connect(self, background=False):
        from geckolib.async_spa import GeckoAsyncSpa
        from geckolib.async_spa_descriptor import GeckoAsyncSpaDescriptor
        from geckolib.async_tasks import AsyncTasks

        from .rig import SPA_ID

        self.taskman = AsyncTasks()
        await self.taskman.__aenter__()
        desc = GeckoAsyncSpaDescriptor(SPA_ID, "Udp Test Spa", self.sim.addr)
        cid = b"IOS02ac6d28-42d0-41e3-ad22-274d0aa4%04x" % (0x91DA + self.n)
        self.spa = GeckoAsyncSpa(cid, desc, self.taskman, self.handle_event)
        await self.spa.connect()
        if not self.spa.is_connected:
            return False
        if not background:
            for t in self.taskman._tasks:
                if t.get_name() in ("SPA:Ping loop", "SPA:Refresh loop"):
                    t.cancel()
            await asyncio.sleep(0)
        return True

    @property
    def protocol(self):
        return self.spa._protocol

    async def quiesce(self, settle=0.25, limit=15.0):
        t0 = time.monotonic()
        last = (len(self.sim.sock.rx), len(self.sim.sock.tx))
        quiet = time.monotonic()
        while time.monotonic() - t0 < limit:
            await asyncio.sleep(0.05)
            cur = (len(self.sim.sock.rx), len(self.sim.sock.tx))
            if cur != last or self.sim.engine._send_handlers or self.protocol.queue.qsize() > 0 or any(t.is_alive() for t in self.sim.sock.timers):
                last, quiet = cur, time.monotonic()
            elif time.monotonic() - quiet >= settle:
                return True
        return False

    async def close(self):
        try:
            if self.spa is not None:
                with contextlib.suppress(Exception):
                    await self.spa.disconnect()
            if self.taskman is not None:
                with contextlib.suppress(Exception):
                    await asyncio.wait_for(self.taskman.gather(), 10)
        finally:
            self.sim.close()


def run_real(main_coro, wall=600):
    """Run on a fresh real selector loop with a generous wall-clock watchdog (firing = inconclusive)."""
    from .aworld import reset_geckolib_globals

    reset_geckolib_globals()
    loop = asyncio.new_event_loop()
    try:
        return loop.run_until_complete(asyncio.wait_for(main_coro, wall))
    finally:
        pending = [t for t in asyncio.all_tasks(loop) if not t.done()]
        for t in pending:
            t.cancel()
        if pending:
            with contextlib.suppress(BaseException):
                loop.run_until_complete(asyncio.wait(pending, timeout=5))
        loop.close()
