"""Enumeration of the shipped pack tables and an *independent* reference decoder.

The reference model is written from the table declarations (the constructor
arguments the generated modules pass: tag, position, type, bit position, label list,
size, max-items, writability) and not from what GeckoStructAccessor computes from
them.  The declarations are captured by wrapping GeckoStructAccessor.__init__ from the
harness (no change to /repo).
"""

from __future__ import annotations

import importlib
import os
import re

from .common import REPO_SRC

PACKS_DIR = os.path.join(REPO_SRC, "geckolib", "driver", "packs")
_MOD_RE = re.compile(r"^(?P<plat>.+)-(?P<kind>cfg|log)-(?P<ver>\d+)$")


def install_decl_capture():
    """Record the declaration each accessor was constructed from (idempotent)."""
    from geckolib.driver import accessor as A

    orig = A.GeckoStructAccessor.__init__
    if getattr(orig, "_verif_capture", False):
        return

    def __init__(self, struct_, tag, pos, type, bitpos, items, size, maxitems, rw):
        self._verif_decl = {
            "tag": tag,
            "pos": pos,
            "type": type,
            "bitpos": bitpos,
            "items": list(items.split("|")) if isinstance(items, str) else (list(items) if items is not None else None),
            "size": size,
            "maxitems": maxitems,
            "rw": rw,
        }
        orig(self, struct_, tag, pos, type, bitpos, items, size, maxitems, rw)

    __init__._verif_capture = True
    A.GeckoStructAccessor.__init__ = __init__


def module_stems():
    """All table module stems, split in (packs, cfgs, logs)."""
    packs, cfgs, logs = [], [], []
    for fn in sorted(os.listdir(PACKS_DIR)):
        if not fn.endswith(".py") or fn == "__init__.py":
            continue
        stem = fn[:-3]
        m = _MOD_RE.match(stem)
        if not m:
            packs.append(stem)
        elif m.group("kind") == "cfg":
            cfgs.append(stem)
        else:
            logs.append(stem)
    return packs, cfgs, logs


def split_stem(stem):
    m = _MOD_RE.match(stem)
    if not m:
        return stem, None, None
    return m.group("plat"), m.group("kind"), int(m.group("ver"))


def combos():
    """Every platform x config-version x log-version combination shipped."""
    packs, cfgs, logs = module_stems()
    out = []
    for p in packs:
        cs = sorted(split_stem(c)[2] for c in cfgs if split_stem(c)[0] == p)
        ls = sorted(split_stem(l)[2] for l in logs if split_stem(l)[0] == p)
        for c in cs:
            for l in ls:
                out.append((p, c, l))
    return out


def import_stem(stem):
    return importlib.import_module("geckolib.driver.packs." + stem)


def load_struct(struct_, plat, cfgv, logv):
    """Build accessors on `struct_` exactly as the library does on connect."""
    pack = import_stem(plat).GeckoPack(struct_)
    cfg = import_stem(f"{plat}-cfg-{cfgv}").GeckoConfigStruct(struct_)
    log = import_stem(f"{plat}-log-{logv}").GeckoLogStruct(struct_)
    struct_.build_accessors(cfg, log)
    return pack, cfg, log


# ----------------------------------------------------------------- reference model
class RefItem:
    """Reference view of one table item, from its declaration only."""

    __slots__ = ("tag", "cls", "kind", "pos", "width", "bitpos", "nbits", "mask", "labels", "rw", "maxitems")

    def __init__(self, cls_name, decl):
        self.tag = decl["tag"]
        self.cls = cls_name
        self.kind = "Temp" if cls_name == "GeckoTempStructAccessor" else decl["type"]
        self.pos = decl["pos"]
        size = decl["size"]
        self.width = 2 if decl["type"] in ("Word", "Time") else (size if size is not None else 1)
        self.bitpos = decl["bitpos"]
        self.maxitems = None if decl["maxitems"] is None else int(decl["maxitems"])
        if self.bitpos is None:
            self.nbits = 8 * self.width
        elif self.maxitems is None:
            self.nbits = 1
        else:
            # a field able to hold maxitems distinct values
            self.nbits = max(1, (self.maxitems - 1).bit_length())
        self.mask = (1 << self.nbits) - 1
        self.labels = decl["items"]
        self.rw = decl["rw"]

    @property
    def shift(self):
        return self.bitpos or 0

    @property
    def field_mask(self):
        """Mask of the item's own bits inside its width-byte big-endian word."""
        return (self.mask << self.shift) & ((1 << (8 * self.width)) - 1)

    def shape(self):
        return (self.kind, self.width, self.bitpos, self.nbits, None if self.labels is None else len(self.labels))

    def raw(self, block):
        word = int.from_bytes(block[self.pos : self.pos + self.width], "big")
        return (word >> self.shift) & self.mask

    def decode(self, block, units=None):
        """Decoded value; Temp items decode to the stored word unless units given."""
        v = self.raw(block)
        if self.kind == "Bool":
            return v == 1
        if self.kind == "Enum":
            return self.labels[v] if v < len(self.labels) else "Unknown"
        if self.kind == "Time":
            return f"{v // 256:02}:{v % 256:02}"
        if self.kind == "Temp" and units is not None:
            return v / 18.0 if units == "C" else (v + 320) / 10.0
        return v

    def encode(self, value):
        """Typed/str value -> field value (what the device should store in the field)."""
        if self.kind == "Enum":
            return self.labels.index(value)
        if self.kind == "Bool":
            if isinstance(value, str):
                return 1 if value.lower() == "true" else 0
            return 1 if value else 0
        if self.kind == "Time":
            h, m = value.split(":")
            return int(h) * 256 + int(m) % 256
        return int(value)

    def inside_block(self, size=1024):
        return 0 <= self.pos and self.pos + self.width <= size


def ref_of(accessor) -> RefItem:
    return RefItem(type(accessor).__name__, accessor._verif_decl)


def apply_write(block: bytes, pos: int, length: int, value: int) -> bytes:
    """What the device does with a set-value command."""
    data = int(value).to_bytes(length, "big")
    return block[:pos] + data + block[pos + length :]
