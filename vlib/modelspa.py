"""ModelSpa - the simulator extended (in the harness) with what C13 calls "the spa
modelled as applying writes / key presses to its block and echoing partial updates".
It is a model of the *hardware*, not of geckolib: SPACK set-value -> apply to the block
-> STATP echo to every known client; key press -> toggle the device behind the key;
SETWC -> remember the mode, reply WCSET; GETWC -> report the remembered mode."""
from __future__ import annotations

import struct

KEY_TO_DEVICE = {1: "P1", 2: "P2", 3: "P3", 4: "P4", 5: "P5", 6: "BL", 16: "LI", 23: "Waterfall"}


def make_model_class():
    from geckolib.driver import GeckoPackCommandProtocolHandler, GeckoPacketProtocolHandler, GeckoPartialStatusBlockProtocolHandler, GeckoWatercareProtocolHandler
    from geckolib.utils.simulator import GeckoSimulator

    class SetWatercareHandler(GeckoPacketProtocolHandler):
        """Peer-side handler for SETWC (the library ships none - see C04's known finding)."""

        def can_handle(self, received_bytes, sender):
            return received_bytes.startswith(b"SETWC")

        def handle(self, received_bytes, sender):
            self.seq, self.mode = struct.unpack(">BB", received_bytes[5:7])

    class ModelSpa(GeckoSimulator):
        def __init__(self, first_commands=None):
            self.watercare_mode = 1
            self.commands = []  # decoded commands as the hardware saw them
            super().__init__(first_commands)
            self._socket.add_receive_handler(SetWatercareHandler(on_handled=self._on_set_watercare))

        # -- watercare
        def _on_set_watercare(self, handler, sender):
            self.watercare_mode = handler.mode
            self.commands.append(("SETWC", handler.seq, handler.mode))
            self._socket.queue_send(GeckoPacketProtocolHandler(content=b"WCSET", parms=sender), sender)

        def _on_watercare(self, handler, sender):
            if handler.schedule:
                return super()._on_watercare(handler, sender)
            self._socket.queue_send(GeckoWatercareProtocolHandler.response(self.watercare_mode, parms=sender), sender)

        # -- pack commands
        def _echo(self, changes):
            # the hardware reports position + 16-bit word records
            blk = self.structure.status_block
            changes = [(min(pos, 1022), blk[min(pos, 1022) : min(pos, 1022) + 2]) for pos, _ in changes]
            for client in self._clients:
                self._socket.queue_send(GeckoPartialStatusBlockProtocolHandler.report_changes(self._socket, changes, parms=client), client)

        def _on_pack_command(self, handler: GeckoPackCommandProtocolHandler, sender):
            self._socket.queue_send(GeckoPackCommandProtocolHandler.response(parms=sender), sender)
            if sender not in self._clients:
                self._clients.append(sender)
            if handler.is_set_value:
                pos, data = handler.position, bytes(handler.new_data)
                self.commands.append(("SET", handler._sequence, handler.pack_type, pos, data))
                blk = self.structure.status_block
                self.structure.replace_status_block_segment(pos, data)
                self._echo([(pos, data)])
            elif handler.is_key_press:
                self.commands.append(("KEY", handler._sequence, handler.pack_type, handler.keycode))
                dev = KEY_TO_DEVICE.get(handler.keycode)
                if dev is None:
                    return
                acc = self.structure.accessors
                changes = []
                for tag in ({"LI": ["UdLi"], "Waterfall": ["Waterfall", "UdWaterfall"]}.get(dev, [dev, "Ud" + dev])):
                    a = acc.get(tag)
                    if a is None:
                        continue
                    cur = a.value
                    if a.type == "Bool":
                        new = not cur
                    else:
                        labels = [x for x in a.items if x not in ("",)]
                        on = next((x for x in labels if x not in ("OFF",)), None)
                        new = "OFF" if cur != "OFF" else on
                        if new is None:
                            continue
                    before = self.structure.status_block[a.pos : a.pos + a.length]
                    a.value = new  # goes through _on_set_value (applies to the block)
                    after = self.structure.status_block[a.pos : a.pos + a.length]
                    if before != after:
                        changes.append((a.pos, after))
                if changes:
                    self._echo(changes)

    return ModelSpa
