"""Shared plumbing of the geckolib runtime-monitoring checks.

Everything here is harness code: seeded RNG, shard fan-out over subprocesses,
verdict bookkeeping (violated / held-on-what-was-observed / inconclusive),
evidence, replay files and the known-findings classifier.  Nothing in this
module imports geckolib.
"""

from __future__ import annotations

import fnmatch
import hashlib
import json
import os
import random
import subprocess
import sys
import time
import traceback
from concurrent.futures import ThreadPoolExecutor

HERE = os.path.dirname(os.path.dirname(os.path.abspath(__file__)))
REPO = os.environ.get("VERIF_REPO", "/repo")
REPO_SRC = os.path.join(REPO, "src")
CACHE = os.path.join(HERE, ".cache")
NCPU = min(16, os.cpu_count() or 4)


# --------------------------------------------------------------------------- RNG
def stable_digest(*parts) -> str:
    h = hashlib.sha256()
    for p in parts:
        h.update(repr(p).encode())
        h.update(b"\0")
    return h.hexdigest()


def rng(*parts) -> random.Random:
    """A private PRNG derived from a stable digest (independent of PYTHONHASHSEED)."""
    return random.Random(int(stable_digest(*parts)[:16], 16))


def short(obj) -> str:
    return stable_digest(json.dumps(obj, sort_keys=True, default=repr))[:12]


# ---------------------------------------------------------------- shard results
class Shard:
    """Accumulator used inside one shard process (and merged in the parent)."""

    MAX_SAMPLES = 6
    MAX_WITNESS_PER_KEY = 3

    def __init__(self):
        self.evaluations = 0
        self.distinct = set()  # strings naming distinct non-trivial cases/classes
        self.counters = {}  # name -> int
        self.sets = {}  # name -> set of str
        self.samples = []
        self.violations = []  # {key, what, witness}
        self.inconclusive = []  # strings
        self.maxima = {}  # name -> number

    # -- recording
    def count(self, name, n=1):
        self.counters[name] = self.counters.get(name, 0) + n

    def see(self, name, item):
        self.sets.setdefault(name, set()).add(str(item))

    def maximum(self, name, value):
        if name not in self.maxima or value > self.maxima[name]:
            self.maxima[name] = value

    def nontrivial(self, item):
        self.distinct.add(str(item))

    def sample(self, obj):
        if len(self.samples) < self.MAX_SAMPLES:
            self.samples.append(obj)

    def violation(self, key, what, witness=None):
        n = sum(1 for v in self.violations if v["key"] == key)
        self.count("violations_seen")
        if n < self.MAX_WITNESS_PER_KEY:
            self.violations.append({"key": key, "what": what, "witness": witness})
        else:
            self.count("violations_suppressed_same_key")

    def inconc(self, why):
        why = str(why)[:500]
        if why not in self.inconclusive and len(self.inconclusive) < 8:
            self.inconclusive.append(why)

    # -- transport
    def to_json(self):
        return {
            "evaluations": self.evaluations,
            "distinct": sorted(self.distinct),
            "counters": self.counters,
            "sets": {k: sorted(v) for k, v in self.sets.items()},
            "samples": self.samples,
            "violations": self.violations,
            "inconclusive": self.inconclusive,
            "maxima": self.maxima,
        }

    def merge(self, js):
        self.evaluations += js.get("evaluations", 0)
        self.distinct.update(js.get("distinct", []))
        for k, v in js.get("counters", {}).items():
            self.counters[k] = self.counters.get(k, 0) + v
        for k, v in js.get("sets", {}).items():
            self.sets.setdefault(k, set()).update(v)
        for s in js.get("samples", []):
            self.sample(s)
        for v in js.get("violations", []):
            n = sum(1 for x in self.violations if x["key"] == v["key"])
            if n < self.MAX_WITNESS_PER_KEY:
                self.violations.append(v)
        for w in js.get("inconclusive", []):
            self.inconc(w)
        for k, v in js.get("maxima", {}).items():
            self.maximum(k, v)


def jsonable(o):
    if isinstance(o, (bytes, bytearray)):
        return o.hex()
    if isinstance(o, (set, frozenset)):
        return sorted(map(str, o))
    if isinstance(o, tuple):
        return list(o)
    return repr(o)


# ------------------------------------------------------------------ sub-processes
def child_env(extra=None):
    env = dict(os.environ)
    deps = os.path.join(HERE, ".deps")
    env["PYTHONPATH"] = os.pathsep.join([REPO_SRC, HERE, deps])
    env.setdefault("PYTHONHASHSEED", "0")
    env["PYTHONPYCACHEPREFIX"] = os.path.join(CACHE, "pyc")
    env["GECKOLIB_VERIF"] = "1"
    env["PYTHONDONTWRITEBYTECODE"] = ""
    if extra:
        env.update(extra)
    return env


def _die_with_parent():
    """preexec_fn of the shard interpreters: SIGKILL when the check process that started them goes
    away (a tool that times a check out kills only that process; shards spinning on would starve
    every later run)."""
    try:
        import ctypes
        import signal

        ctypes.CDLL("libc.so.6", use_errno=True).prctl(1, signal.SIGKILL)  # PR_SET_PDEATHSIG
    except Exception:  # noqa
        pass


def run_shards(module, func, arglist, timeout, workers=None, env_list=None):
    """Run `module.func(Shard, **args)` once per element of arglist, each in its own
    interpreter.  Returns a list of dicts: the shard JSON, or {"error": ...,
    "kind": "timeout"|"crash"} (-> inconclusive, never a verdict)."""
    workers = workers or NCPU
    os.makedirs(os.path.join(CACHE, "shards"), exist_ok=True)

    def one(i_args):
        i, args = i_args
        out = os.path.join(CACHE, "shards", f"{module}.{func}.{os.getpid()}.{i}.json")
        env = child_env(env_list[i] if env_list else None)
        t0 = time.time()
        try:
            p = subprocess.run(
                [sys.executable, "-m", "vlib.shard", module, func, out],
                input=json.dumps(args).encode(),
                stdout=subprocess.PIPE,
                stderr=subprocess.PIPE,
                timeout=timeout,
                # environment dimensions: shard 1 runs with the library's loggers at DEBUG, shard 2 with
                # assert statements stripped (python -O); behaviour must not depend on either
                env=dict(env, VERIF_SHARD_DEADLINE=str(int(timeout) + 60), VERIF_SHARD_LOGGING=("debug" if (i == 1 and len(arglist) > 2) else "off"), PYTHONOPTIMIZE=("1" if (i == 2 and len(arglist) > 3) else "")),
                cwd=HERE,
                preexec_fn=_die_with_parent,
            )
        except subprocess.TimeoutExpired:
            return {"error": f"shard {i} timed out after {timeout}s", "kind": "timeout"}
        try:
            if p.returncode != 0:
                return {
                    "error": f"shard {i} exit {p.returncode}: "
                    + " | ".join(p.stderr.decode(errors="replace").strip().splitlines()[-4:])[-400:],
                    "kind": "crash",
                }
            with open(out) as f:
                js = json.load(f)
            js["wall"] = time.time() - t0
            return js
        except Exception as e:  # harness trouble
            return {"error": f"shard {i} unreadable: {e!r}", "kind": "crash"}
        finally:
            try:
                os.unlink(out)
            except OSError:
                pass

    with ThreadPoolExecutor(max_workers=workers) as ex:
        return list(ex.map(one, enumerate(arglist)))


# ---------------------------------------------------------------- known findings
def load_findings():
    path = os.path.join(HERE, "known_findings.json")
    try:
        with open(path) as f:
            return json.load(f).get("findings", [])
    except FileNotFoundError:
        return []


def known_malformed_items():
    """(module stem, item tag) pairs recorded as malformed table items (known findings of
    C18/C02).  Checks about other mechanisms (C03, C11...) leave those items out of their
    reference model instead of re-reporting the same root cause under another name."""
    out = set()
    for f in load_findings():
        if f.get("status") == "known" and f.get("property") in ("C18", "C02"):
            parts = f["key"].split(":")
            if len(parts) >= 4 and parts[1] == "item" and "/" in parts[2]:
                stem, tag = parts[2].split("/", 1)
                out.add((stem, tag))
    return out


def classify(prop, key, findings):
    """Return the matching *known* finding entry (status == 'known') or None."""
    for f in findings:
        if f.get("property") != prop or f.get("status") != "known":
            continue
        if f["key"] == key or fnmatch.fnmatchcase(key, f["key"]):
            return f
    return None


# ------------------------------------------------------------------------ the run
class Run(Shard):
    def __init__(self, prop, tier, seed, level):
        super().__init__()
        self.prop, self.tier, self.seed, self.level = prop, tier, seed, level
        self.t0 = time.time()
        self.extra = {}

    def absorb(self, results):
        """Merge shard JSONs; errors make the run inconclusive."""
        for r in results:
            if "error" in r:
                self.inconc(r["error"])
                self.count("shards_failed")
            else:
                self.merge(r)
                self.count("shards_ok")

    def need(self, cond, why):
        """Minimum-observation requirement: falling short is inconclusive."""
        if not cond:
            self.inconc("minimum observation not met: " + why)

    def finish(self, rule, assumptions=(), exhaustive=None):
        findings = load_findings()
        wall = time.time() - self.t0
        by_key = {}
        for v in self.violations:
            by_key.setdefault(v["key"], []).append(v)
        unknown, known = [], []
        for key, vs in sorted(by_key.items()):
            f = classify(self.prop, key, findings)
            (known if f else unknown).append((key, vs, f))

        cov = {
            "evaluations": int(self.evaluations),
            "distinct_nontrivial": len(self.distinct),
            "rule": rule,
            "samples": self.samples[: self.MAX_SAMPLES] or ["(no sample recorded)"],
            "counters": dict(sorted(self.counters.items())),
            "observed_sets": {
                k: (sorted(v) if len(v) <= 60 else {"count": len(v), "first": sorted(v)[:40]})
                for k, v in sorted(self.sets.items())
            },
            "maxima": self.maxima,
            "known_findings_seen": [k for k, _, _ in known],
            "unknown_violation_keys": [k for k, _, _ in unknown],
            "inconclusive_reasons": self.inconclusive,
            "verdict": "violated"
            if unknown
            else ("inconclusive" if self.inconclusive else "held_on_observed"),
        }
        if exhaustive is not None:
            cov["exhaustive"] = bool(exhaustive)
        cov.update(self.extra)
        ev = {
            "property_id": self.prop,
            "tier": self.tier,
            "seed": int(self.seed),
            "level": self.level,
            "coverage": cov,
            "assumptions": list(assumptions),
            "wall_s": round(wall, 2),
            "violations": len(unknown),
        }
        # tooling that runs checks against patched scratch trees (seeded changes, mutants) sets
        # VERIF_OUT so that the committed evidence of the unchanged tree is not overwritten
        OUT = os.environ.get("VERIF_OUT") or HERE
        os.makedirs(os.path.join(OUT, "evidence"), exist_ok=True)
        tmp = os.path.join(OUT, "evidence", f".{self.prop}.json.tmp")
        with open(tmp, "w") as f:
            json.dump(ev, f, indent=1, default=jsonable)
            f.write("\n")
        os.replace(tmp, os.path.join(OUT, "evidence", f"{self.prop}.json"))

        for key, vs, f in known:
            print(f"KNOWN-FINDING: property={self.prop} {f['what']} [key={key}]")
        code = 0
        if unknown:
            os.makedirs(os.path.join(OUT, "replays"), exist_ok=True)
            for key, vs, _ in unknown:
                rp = {
                    "property": self.prop,
                    "tier": self.tier,
                    "seed": self.seed,
                    "key": key,
                    "what": vs[0]["what"],
                    "witnesses": [v["witness"] for v in vs],
                }
                name = f"{self.prop}-{short([key])}.json"
                path = os.path.join(OUT, "replays", name)
                with open(path, "w") as f:
                    json.dump(rp, f, indent=1, default=jsonable)
                print(f"  violated: {key}: {vs[0]['what']}")
                print(f"VIOLATION property={self.prop} replay={path}")
            code = 1
        elif self.inconclusive:
            for w in self.inconclusive:
                print(f"INCONCLUSIVE property={self.prop} {w}")
            code = 2
        print(
            f"{self.prop} {self.tier} seed={self.seed}: {cov['verdict']}; "
            f"evaluations={cov['evaluations']} distinct_nontrivial={cov['distinct_nontrivial']} "
            f"known={len(known)} wall={wall:.1f}s"
        )
        return code


def describe_exc(e) -> dict:
    """Where was an exception raised?  'repo' if the innermost frame is in /repo/src."""
    tb = traceback.extract_tb(e.__traceback__)
    inner = tb[-1] if tb else None
    where = "harness"
    if inner is not None and os.path.abspath(inner.filename).startswith(REPO_SRC):
        where = "repo"
    return {
        "type": type(e).__name__,
        "msg": str(e)[:300],
        "where": where,
        "frames": [f"{os.path.relpath(f.filename, REPO)}:{f.lineno}:{f.name}" for f in tb[-6:]],
    }


def replay_args(path):
    """(tier, seed) recorded in a replay file: every scenario is a pure function of the check
    seed and its index, so re-running the tier with the recorded seed re-executes the witness."""
    with open(path) as f:
        rp = json.load(f)
    return rp.get("tier", "quick"), int(rp.get("seed", 0))
