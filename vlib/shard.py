"""Entry point of one shard process: python -m vlib.shard <module> <func> <outfile>
(JSON kwargs on stdin).  Writes the shard accumulator as JSON to <outfile>."""
import importlib
import json
import logging
import re
import sys


def main():
    module, func, out = sys.argv[1:4]
    args = json.loads(sys.stdin.read() or "{}")
    import os as _os

    if _os.environ.get("VERIF_SHARD_LOGGING") == "debug":
        # one shard of every check runs with the library's loggers enabled at DEBUG (records built
        # and dropped): behaviour must not depend on whether somebody listens to the log
        lg = logging.getLogger("geckolib")
        lg.setLevel(logging.DEBUG)
        lg.addHandler(logging.NullHandler())
        lg.propagate = False
    else:
        logging.disable(logging.CRITICAL)
    # hard deadline of this interpreter (the parent's timeout plus a margin): a shard that the parent
    # has given up on must not keep a core busy
    import faulthandler
    import os

    dl = os.environ.get("VERIF_SHARD_DEADLINE")
    if dl:
        faulthandler.dump_traceback_later(int(dl), exit=True)
    from vlib.common import Shard, jsonable

    mod = importlib.import_module(module)
    sh = Shard()
    getattr(mod, func)(sh, **args)
    from vlib import contracts

    if contracts._installed:
        m = re.search(r"c(\d\d)", module)
        contracts.report(sh, "C" + m.group(1) if m else "C??")
    with open(out, "w") as f:
        json.dump(sh.to_json(), f, default=jsonable)


if __name__ == "__main__":
    main()
