"""The asyncio world: virtual clock, virtual-time event loop, virtual network with
fault scripts, and the real GeckoSimulator hosted as the peer (DESIGN.md 2.2-2.5).

Only *legal* schedule non-determinism is produced: call_soon stays FIFO, timers never
fire early (they may fire late by a drawn lateness), the loop may stall, and reading
the clock costs a little time.
"""
from __future__ import annotations

import asyncio
import contextlib
import io
import logging
import random
import selectors
import sys
import time as _time

REAL_MONOTONIC = _time.monotonic


class ScenarioHang(Exception):
    """select(None): nothing ready and nothing scheduled."""


class Watchdog(Exception):
    """iteration / wall-clock cap hit - the scenario is inconclusive."""


class Clock:
    def __init__(self, r: random.Random, cost=(1e-6, 50e-6), start=1000.0):
        self.t = start
        self.r = r
        self.cost = cost
        self.reads = 0

    def __call__(self):
        self.reads += 1
        lo, hi = self.cost
        if hi > 0:
            self.t += self.r.uniform(lo, hi)
        return self.t

    def now(self):
        return self.t

    def advance(self, dt):
        if dt > 0:
            self.t += dt


REGIMES = {
    # name: (timer lateness max, stall probability per iteration, stall max, clock read cost)
    "B": (0.0, 0.0, 0.0, (1e-6, 50e-6)),
    "J": (0.030, 0.002, 0.050, (1e-6, 50e-6)),
    "H": (0.150, 0.004, 2.0, (1e-6, 50e-6)),
    "T": (0.0, 0.0, 0.0, (0.0, 0.0)),  # exact ties
}


class VSelector(selectors.DefaultSelector):
    def __init__(self, clock, r, regime, max_iter, wall_cap):
        super().__init__()
        self.clock, self.r = clock, r
        self.late_max, self.stall_p, self.stall_max, _ = REGIMES[regime]
        self.iterations = 0
        self.max_iter = max_iter
        self.wall_deadline = REAL_MONOTONIC() + wall_cap
        self.injected_lateness = 0.0
        self.injected_stalls = 0.0
        self.max_single_delay = 0.0

    def select(self, timeout=None):
        self.iterations += 1
        if self.iterations > self.max_iter:
            raise Watchdog(f"more than {self.max_iter} loop iterations")
        if self.iterations % 512 == 0 and REAL_MONOTONIC() > self.wall_deadline:
            raise Watchdog("wall-clock watchdog")
        if timeout is None:
            raise ScenarioHang()
        extra = 0.0
        if timeout > 0:
            if self.late_max:
                lam = self.r.uniform(0, self.late_max) if self.r.random() < 0.5 else 0.0
                extra += lam
                self.injected_lateness += lam
            self.clock.advance(timeout)
        if self.stall_p and self.r.random() < self.stall_p:
            s = self.r.uniform(0, self.stall_max)
            extra += s
            self.injected_stalls += s
        if extra:
            self.clock.advance(extra)
            self.max_single_delay = max(self.max_single_delay, extra)
        return super().select(0)


class FakeTransport(asyncio.DatagramTransport):
    def __init__(self, loop, net, protocol, local, kw):
        super().__init__()
        self.loop, self.net, self.protocol = loop, net, protocol
        self.local = local
        self.kw = kw
        self.closed = False
        self.created_at = loop.clock.now()
        self.closed_at = None
        self.owner = None  # name of the task that created it
        self.sent = 0

    def sendto(self, data, addr=None):
        if self.closed:
            self.net.log.append(("send-on-closed", self.loop.clock.now(), self.local, bytes(data)))
            return
        self.sent += 1
        if addr is not None and addr[0] in ("<broadcast>", "255.255.255.255") and not self.kw.get("allow_broadcast"):
            # the OS refuses a broadcast on a socket opened without allow_broadcast; asyncio reports it
            self.protocol.error_received(PermissionError(13, "Permission denied"))
            return
        if getattr(self.net, "send_error", None) is not None:
            # what asyncio's datagram transport does when sendto() raises OSError (interface down,
            # no route): the datagram is lost and the protocol is told through error_received()
            self.net.send_errors_reported = getattr(self.net, "send_errors_reported", 0) + 1
            self.protocol.error_received(self.net.send_error)
            return
        self.net.client_send(self, bytes(data), addr)

    def close(self):
        if self.closed:
            return
        self.closed = True
        self.closed_at = self.loop.clock.now()
        self.loop.call_soon(self.protocol.connection_lost, None)

    def abort(self):
        self.close()

    def is_closing(self):
        return self.closed

    def get_extra_info(self, name, default=None):
        if name == "sockname":
            return self.local
        return default


class VLoop(asyncio.SelectorEventLoop):
    def __init__(self, clock, r, regime="B", max_iter=3_000_000, wall_cap=120.0):
        self.clock = clock
        self.vsel = VSelector(clock, r, regime, max_iter, wall_cap)
        super().__init__(self.vsel)
        self.net = None
        self.endpoint_faults = []  # list of exceptions to raise from create_datagram_endpoint
        self.transports = []
        self.creation_hook = None
        self._port = 40000
        # callback-level crash points: every task step is scheduled through call_soon; a hook
        # can be fired right after the k-th scheduled callback
        self.steps_scheduled = 0
        self.step_target = None
        self.step_hook = None

    def call_soon(self, callback, *args, context=None):
        h = super().call_soon(callback, *args, context=context)
        self.steps_scheduled += 1
        if self.step_hook is not None and self.step_target is not None and self.steps_scheduled >= self.step_target:
            hook, self.step_hook = self.step_hook, None
            super().call_soon(hook)
        return h

    def time(self):
        return self.clock()

    async def create_datagram_endpoint(self, protocol_factory, local_addr=None, remote_addr=None, **kw):
        if self.endpoint_faults:
            exc = self.endpoint_faults.pop(0)
            if exc is not None:
                raise exc
        protocol = protocol_factory()
        self._port += 1
        tr = FakeTransport(self, self.net, protocol, ("10.0.0.2", self._port), kw)
        t = asyncio.current_task()
        tr.owner = t.get_name() if t else None
        self.transports.append(tr)
        self.net.register(tr)
        if self.creation_hook is not None:
            self.creation_hook(tr)  # harness: act exactly while the endpoint is being opened
        self.call_soon(protocol.connection_made, tr)
        try:
            await asyncio.sleep(0)
        except BaseException:
            # asyncio's create_datagram_endpoint closes the transport when its wait is
            # cancelled or fails
            tr.close()
            raise
        return tr, protocol


def verb_of(data: bytes) -> str:
    if data.startswith(b"<HELLO>"):
        return "HELLO"
    i = data.find(b"<DATAS>")
    if data.startswith(b"<PACKT>") and i >= 0:
        return data[i + 7 : i + 12].decode("latin1")
    return "?"


class Dgram:
    __slots__ = ("id", "dir", "data", "verb", "t", "src", "dst", "fate", "nth")

    def __init__(self, id, dir, data, t, src, dst, nth):
        self.id, self.dir, self.data, self.t, self.src, self.dst, self.nth = id, dir, data, t, src, dst, nth
        self.verb = verb_of(data)
        self.fate = None


class Net:
    """Connects FakeTransports with peers; every datagram gets an id and a fate."""

    def __init__(self, loop: VLoop, r: random.Random, latency=(0.0005, 0.003)):
        self.loop, self.r = loop, r
        loop.net = self
        self.latency = latency
        self.peers = {}  # (ip, port) -> peer (has .receive(data, src))
        self.clients = {}  # local addr -> FakeTransport
        self.log = []  # tuples, first element the event kind
        self.dgrams = []
        self.fault = None  # callable(Dgram) -> list of delays ([] = drop) or None = default
        self._count = {}
        self.late_to_closed = 0
        self.inflight = 0

    def register(self, tr):
        self.clients[tr.local] = tr

    def add_peer(self, addr, peer):
        self.peers[addr] = peer

    def _new(self, dir, data, src, dst):
        k = (dir, verb_of(data))
        n = self._count[k] = self._count.get(k, 0) + 1
        d = Dgram(len(self.dgrams), dir, data, self.loop.clock.now(), src, dst, n)
        self.dgrams.append(d)
        return d

    def _fate(self, d):
        delays = None
        if self.fault is not None:
            delays = self.fault(d)
        if delays is None:
            delays = [self.r.uniform(*self.latency)]
        d.fate = list(delays)
        return delays

    def client_send(self, tr, data, addr):
        # host names / alternative spellings of an address resolve like the OS resolver would
        if addr is not None and addr[0] in getattr(self, "aliases", {}):
            addr = (self.aliases[addr[0]],) + tuple(addr[1:])
        targets = []
        if addr is not None and addr[0] in ("<broadcast>", "255.255.255.255"):
            targets = [a for a in self.peers if a[1] == addr[1]]
        elif addr in self.peers:
            targets = [addr]
        for a in targets or [addr]:
            d = self._new("c2s", data, tr.local, a)
            delays = self._fate(d)
            peer = self.peers.get(a)
            if peer is None:
                d.fate = "no-such-peer"
                continue
            for dl in delays:
                self.inflight += 1
                self.loop.call_later(dl, self._deliver_to_peer, peer, data, tr.local)

    def _deliver_to_peer(self, peer, data, src):
        self.inflight -= 1
        peer.receive(data, src)

    def peer_send(self, src, data, dst):
        d = self._new("s2c", data, src, dst)
        for dl in self._fate(d):
            self.inflight += 1
            self.loop.call_later(dl, self._deliver_to_client, d, data, src, dst)
        return d

    def _deliver_to_client(self, d, data, src, dst):
        self.inflight -= 1
        tr = self.clients.get(tuple(dst[:2]))
        if tr is None or tr.closed:
            self.late_to_closed += 1
            return
        tr.protocol.datagram_received(data, src)

    def inject(self, data, src, dst_transport, delay=0.0):
        """Harness-originated datagram to a client endpoint (unsolicited traffic)."""
        d = self._new("s2c", data, src, dst_transport.local)
        d.fate = [delay]
        self.inflight += 1
        self.loop.call_later(delay, self._deliver_to_client, d, data, src, dst_transport.local)
        return d

    def sent(self, dir=None, verb=None):
        return [d for d in self.dgrams if (dir is None or d.dir == dir) and (verb is None or d.verb == verb)]


class _MockSock:
    def __init__(self, host):
        self.host = host

    def sendto(self, data, addr):
        self.host.net.peer_send(self.host.addr, bytes(data), tuple(addr[:2]))

    def settimeout(self, t):
        pass

    def close(self):
        pass


def quiet_simulator(cls=None):
    """Construct the real GeckoSimulator without its console noise / root log handler."""
    from geckolib.utils.simulator import GeckoSimulator

    cls = cls or GeckoSimulator
    root = logging.getLogger()
    before = list(root.handlers)
    level = root.level
    state = random.getstate()
    with contextlib.redirect_stdout(io.StringIO()):
        sim = cls()
    random.setstate(state)
    for h in list(root.handlers):
        if h not in before:
            root.removeHandler(h)
    root.setLevel(level)
    return sim


class SimHost:
    """The unmodified GeckoSimulator behind a mock OS socket, driven by loop timers."""

    PUMP = 0.0205

    def __init__(self, net: Net, snapshot_file=None, snapshot=None, addr=("10.0.0.1", 10022), sim_cls=None):
        from geckolib.utils.snapshot import GeckoSnapshot

        self.net, self.addr = net, addr
        self.sim = quiet_simulator(sim_cls)
        self.sock = self.sim._socket
        self.sock._socket = _MockSock(self)
        if snapshot is None and snapshot_file is not None:
            snapshot = GeckoSnapshot.parse_log_file(snapshot_file)[0]
        if snapshot is not None:
            with contextlib.redirect_stdout(io.StringIO()):
                self.sim.set_snapshot(snapshot)
        self._pumping = False
        self.received = 0
        self.up = True
        self.on_receive = None  # harness callback(data, src) before the simulator sees a datagram
        net.add_peer(addr, self)

    @property
    def block(self):
        return self.sim.structure.status_block

    def set_block(self, block: bytes):
        self.sim.structure.set_status_block(bytes(block))

    def receive(self, data, src):
        if not self.up:
            return
        self.received += 1
        if self.on_receive is not None:
            self.on_receive(data, src)
        with contextlib.redirect_stdout(io.StringIO()):
            self.sock.dispatch_recevied_data(data, src)
        self._kick()

    def _kick(self):
        if not self._pumping and self.sock._send_handlers:
            self._pumping = True
            # just over the engine's own throttle interval (read from the library)
            gap = 1.0 / float(type(self.sock)._SENDING_THROTTLE_RATE_PER_SECOND) + 0.0005
            self.net.loop.call_later(gap, self._pump)

    def _pump(self):
        self._pumping = False
        self.sock._process_send_requests()
        # mirror the engine: loop() of handlers is irrelevant for the standing handlers
        self._kick()

    def say(self, handler, dest):
        """Queue a message from the simulator (e.g. an unsolicited partial update)."""
        self.sock.queue_send(handler, dest)
        self._kick()


def reset_geckolib_globals():
    import geckolib.config as C

    C.ConfigChange = None
    idle = C._GeckoIdleConfig()
    for m in C.CONFIG_MEMBERS:
        setattr(C.GeckoConfig, m, getattr(idle, m))


class World:
    """One scenario: clock + loop + net (+ peers added by the caller)."""

    def __init__(self, r: random.Random, regime="B", max_iter=3_000_000, wall_cap=120.0, latency=(0.0005, 0.003)):
        self.r = r
        self.regime = regime
        self.clock = Clock(r, cost=REGIMES[regime][3])
        _time.monotonic = self.clock
        reset_geckolib_globals()
        self.loop = VLoop(self.clock, r, regime, max_iter, wall_cap)
        asyncio.set_event_loop(self.loop)
        self.net = Net(self.loop, r, latency)

    def set_regime(self, regime):
        """Switch the schedule regime in mid-scenario (e.g. connect under B, then go hostile)."""
        self.regime = regime
        v = self.loop.vsel
        v.late_max, v.stall_p, v.stall_max, cost = REGIMES[regime]
        self.clock.cost = cost

    def run(self, coro):
        """Run to completion.  Raises ScenarioHang / Watchdog from the selector."""
        return self.loop.run_until_complete(coro)

    def close(self):
        try:
            # cancel whatever is left so that the loop can be closed quietly
            pending = [t for t in asyncio.all_tasks(self.loop) if not t.done()]
            for t in pending:
                t.cancel()
            if pending:
                with contextlib.suppress(BaseException):
                    self.vsel_relax()
                    self.loop.run_until_complete(asyncio.gather(*pending, return_exceptions=True))
        finally:
            with contextlib.suppress(BaseException):
                self.loop.close()
            asyncio.set_event_loop(None)
            _time.monotonic = REAL_MONOTONIC

    def vsel_relax(self):
        self.loop.vsel.max_iter += 100000
        self.loop.vsel.wall_deadline = REAL_MONOTONIC() + 20

    @property
    def now(self):
        return self.clock.now()


DEFAULT_SNAPSHOT = None


def snapshot_dir():
    import os

    from .common import REPO

    return os.path.join(REPO, "tests", "snapshots")


# ------------------------------------------------------------------ queue tap
def install_queue_tap():
    """Boundary tap on AsyncPeekableQueue (harness only): every put gets an id; every pop is
    recorded with the popping handler and task.  The class is patched IN PLACE with lazily created
    per-instance state, so that a queue object created before the tap was installed (e.g. one bound
    as a default argument at import time) is recorded as well."""
    import collections

    import geckolib.driver.async_udp_protocol as M

    base = M.AsyncPeekableQueue
    if getattr(base, "_verif_tap", False):
        return base
    orig_put, orig_pop = base.put_nowait, base.pop

    def state(self):
        d = self.__dict__
        if "_verif_state" not in d:
            d["_verif_state"] = True
            d["ids"] = collections.deque()
            d["events"] = []  # ("put"/"pop", id, t, data, handler class, task, can_handle?, id(handler))
            d["head_since"] = {}
            base.registry.append(self)
        return d

    def __getattr__(self, name):
        if name in ("ids", "events", "head_since"):
            return state(self)[name]
        raise AttributeError(name)

    def put_nowait(self, item):
        st = state(self)
        base.next_id += 1
        i = base.next_id
        t = _time.monotonic.now() if hasattr(_time.monotonic, "now") else _time.monotonic()
        orig_put(self, item)
        st["ids"].append(i)
        if len(st["ids"]) == 1:
            st["head_since"][i] = t
        st["events"].append(("put", i, t, item[0], None, None, None, None))

    def pop(self):
        st = state(self)
        fr = sys._getframe(1)
        handler = fr.f_locals.get("self")
        t = _time.monotonic.now() if hasattr(_time.monotonic, "now") else _time.monotonic()
        head = self.head
        i = st["ids"][0] if st["ids"] else None
        ok = None
        if head is not None and handler is not None and hasattr(handler, "can_handle"):
            try:
                ok = bool(handler.can_handle(head[0], head[1]))
            except Exception:
                ok = False
        task = asyncio.current_task()
        st["events"].append(("pop", i, t, head[0] if head else None, type(handler).__name__, task.get_name() if task else None, ok, id(handler)))
        orig_pop(self)
        if st["ids"]:
            st["ids"].popleft()
        if st["ids"]:
            st["head_since"][st["ids"][0]] = t

    base._verif_tap = True
    base.registry = []  # all tapped instances (per process)
    base.next_id = 0
    base.__getattr__ = __getattr__
    base.put_nowait = put_nowait
    base.pop = pop
    return base
