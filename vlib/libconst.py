"""The library's own constants, read at run time, so that a change of a polling interval,
throttle rate, segment size or pause does not turn into an alarm (bounds move with them)."""


def poll():
    from geckolib.const import GeckoConstants

    return float(GeckoConstants.ASYNCIO_SLEEP_TIMEOUT_FOR_YIELD)


def throttle_gap():
    from geckolib.driver import GeckoUdpSocket

    return 1.0 / float(GeckoUdpSocket._SENDING_THROTTLE_RATE_PER_SECOND)


def segment_size():
    from geckolib.utils.simulator import GeckoSimulator

    return int(GeckoSimulator._STATUS_BLOCK_SEGMENT_SIZE)


def retry_pause():
    from geckolib.config import GeckoConfig

    return float(GeckoConfig.PAUSE_BETWEEN_RETRIES_IN_SECONDS)
