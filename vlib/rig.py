"""A real GeckoAsyncSpa connected (through the real handshake) to the real simulator
inside a virtual World.  Used by the peer-based async checks."""
from __future__ import annotations

import asyncio
import os

from .aworld import SimHost, World, install_queue_tap, snapshot_dir

SPA_ID = b"SPA01:02:03:04:05:06"
CLIENT_ID = b"IOS02ac6d28-42d0-41e3-ad22-274d0aa491da"


class SpaRig:
    event_delay = None

    def __init__(self, world: World, snapshot="default.snapshot", sim_cls=None, tap=True, addr=("10.0.0.1", 10022)):
        self.w = world
        from . import contracts

        contracts.install()
        self.tap = install_queue_tap() if tap else None
        path = snapshot if os.path.isabs(snapshot) else os.path.join(snapshot_dir(), snapshot)
        self.sim = SimHost(world.net, path, sim_cls=sim_cls, addr=addr)
        self.events = []
        self.event_delay = None  # optional callable(event) -> seconds the client handler suspends
        self.spa = None
        self.taskman = None

    async def handle_event(self, event, **kw):
        self.events.append((event, self.w.now, kw))
        if self.event_delay is not None:
            d = self.event_delay(event)
            if d is not None:
                await asyncio.sleep(d)

    async def connect(self, background=False):
        from geckolib.async_spa import GeckoAsyncSpa
        from geckolib.async_spa_descriptor import GeckoAsyncSpaDescriptor
        from geckolib.async_tasks import AsyncTasks

        self.taskman = AsyncTasks()
        await self.taskman.__aenter__()
        desc = GeckoAsyncSpaDescriptor(SPA_ID, "Udp Test Spa", self.sim.addr)
        self.spa = GeckoAsyncSpa(CLIENT_ID, desc, self.taskman, self.handle_event)
        await self.spa.connect()
        if not self.spa.is_connected:
            return False
        if not background:
            self.cancel_tasks(("SPA:Ping loop", "SPA:Refresh loop"))
            await asyncio.sleep(0)
        return True

    def cancel_tasks(self, names):
        for t in self.taskman._tasks:
            if t.get_name() in names:
                t.cancel()

    @property
    def protocol(self):
        return self.spa._protocol

    @property
    def transport(self):
        return self.spa._transport

    async def quiesce(self, settle=0.35, limit=30.0):
        """Wait until the network is silent and the receive queue is empty."""
        t0 = self.w.now
        last = len(self.w.net.dgrams)
        quiet_since = self.w.now
        while self.w.now - t0 < limit:
            await asyncio.sleep(0.05)
            n = len(self.w.net.dgrams)
            pending = self.sim.sock._send_handlers
            if n != last or pending or self.w.net.inflight > 0 or self.protocol.queue.qsize() > 0:
                last = n
                quiet_since = self.w.now
            elif self.w.now - quiet_since >= settle:
                return True
        return False

    async def close(self):
        try:
            await self.spa.disconnect()
        finally:
            await self.taskman.gather()
