"""Threaded rig: the real GeckoSpa (optionally behind the real GeckoFacade) connected
to the real simulator (or ModelSpa), all on managed threads of the baton scheduler."""
from __future__ import annotations

import contextlib
import io
import os

from .aworld import quiet_simulator, snapshot_dir
from .vthreads import Sched, TNet

SPA_ID = b"SPA01:02:03:04:05:06"
CLIENT_ID = b"IOS02ac6d28-42d0-41e3-ad22-274d0aa491da"


class TRig:
    def __init__(self, r, snapshot="default.snapshot", sim_cls=None, snapshot_obj=None):
        from geckolib.utils.snapshot import GeckoSnapshot

        from . import contracts

        contracts.install()
        self.s = Sched(r).install()
        self.net = TNet(self.s)
        self.sim = quiet_simulator(sim_cls)
        path = snapshot if os.path.isabs(snapshot) else os.path.join(snapshot_dir(), snapshot)
        with contextlib.redirect_stdout(io.StringIO()):
            self.sim.set_snapshot(snapshot_obj if snapshot_obj is not None else GeckoSnapshot.parse_log_file(path)[0])
        self.sim_sock = self.net.socket(("10.0.0.1", 10022))
        self.sim._socket._socket = self.sim_sock
        self.sim._socket.open()
        self.spa = None
        self.facade = None
        self.client_sock = None
        self.extra_clients = []

    @property
    def sim_block(self):
        return self.sim.structure.status_block

    def set_sim_block(self, b):
        self.sim.structure.set_status_block(bytes(b))

    def make_spa(self):
        from geckolib.spa import GeckoSpa
        from geckolib.spa_descriptor import GeckoSpaDescriptor

        desc = GeckoSpaDescriptor(CLIENT_ID, SPA_ID, "Sim", ("10.0.0.1", 10022))
        self.spa = GeckoSpa(desc)
        self.client_sock = self.net.socket()
        self.spa._socket = self.client_sock
        return self.spa

    def connect(self, facade=False, timeout=60, quiet_refresh=True):
        from geckolib.automation import GeckoFacade

        spa = self.make_spa()
        with contextlib.redirect_stdout(io.StringIO()):
            if facade:
                self.facade = GeckoFacade(spa.start_connect())
                ok = self.s.run_until(lambda: self.facade.is_connected, timeout)
            else:
                spa.start_connect()
                ok = self.s.run_until(lambda: spa._is_connected, timeout)
        if ok and quiet_refresh:
            spa.refresh = lambda: None  # the ping thread's periodic refresh would overlap our transfers
        return ok

    def second_client(self, timeout=60):
        """Another GeckoSpa object of the same process (own socket) connected to the same simulator."""
        from geckolib.spa import GeckoSpa
        from geckolib.spa_descriptor import GeckoSpaDescriptor

        desc = GeckoSpaDescriptor(CLIENT_ID[:-1] + b"b", SPA_ID, "Sim", ("10.0.0.1", 10022))
        spa2 = GeckoSpa(desc)
        spa2._socket = self.net.socket()
        with contextlib.redirect_stdout(io.StringIO()):
            spa2.start_connect()
            ok = self.s.run_until(lambda: spa2._is_connected, timeout)
        if not ok:
            return None
        spa2.refresh = lambda: None
        self.extra_clients.append(spa2)
        return spa2

    @property
    def client_parms(self):
        a = self.client_sock.addr
        return (a[0], a[1], CLIENT_ID, SPA_ID)

    def sim_say(self, handler, dest=None):
        self.sim._socket.queue_send(handler, dest or self.client_parms)

    def quiesce(self, settle=0.3, limit=30.0):
        s = self.s
        t0 = s.now
        quiet = s.now
        last = len(self.net.log)
        while s.now - t0 < limit:
            s.sleep(0.05)
            busy = len(self.net.log) != last or s.pending or self.sim._socket._send_handlers or self.spa._send_handlers or self.client_sock.inbox or self.sim_sock.inbox
            if busy:
                last = len(self.net.log)
                quiet = s.now
            elif s.now - quiet >= settle:
                return True
        return False

    def c2s(self, since=0):
        return [x for x in self.net.log[since:] if x["dst"] == ("10.0.0.1", 10022)]

    def close(self):
        with contextlib.redirect_stdout(io.StringIO()):
            try:
                for c in self.extra_clients:
                    with contextlib.suppress(Exception):
                        if c.isopen:
                            c.complete()
                if self.facade is not None:
                    self.facade.complete()
                elif self.spa is not None and self.spa.isopen:
                    self.spa.complete()
            except Exception:
                pass
            try:
                self.sim._socket.close()
            except Exception:
                pass
        self.s.close()
