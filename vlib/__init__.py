"""Harness library for the geckolib runtime-monitoring checks (see DESIGN.md)."""
