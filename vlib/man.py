"""Manager-level harness: the real GeckoAsyncSpaMan (recording subclass) against the
real simulator in the virtual world, driven by phase scripts (healthy / lossy /
blackout / RF-error / absent), user actions (reset, set-spa-info) at drawn instants
and client event handlers that return at once, suspend one tick, or suspend for
seconds.  Records the trace the C08/C09/C10 oracles read."""
from __future__ import annotations

import asyncio
import os

from .aworld import SimHost, World, install_queue_tap, snapshot_dir

SPA_ID_STR = "SPA01:02:03:04:05:06"


def make_manager_class():
    from geckolib import GeckoAsyncSpaMan

    class MonMan(GeckoAsyncSpaMan):
        def __init__(self, mw, *a, **k):
            self.mw = mw
            super().__init__(*a, **k)

        def _sample(self):
            f = self._facade
            s = self._spa
            return {
                "state": self._spa_state.name,
                "facade": None if f is None else id(f),
                "spa": None if s is None else id(s),
                "desc": self._spa_descriptors is not None,
                "sensor": None if self._status_sensor is None else self._status_sensor.state,
                "facade_spa_connected": None if f is None else bool(f.spa.is_connected),
            }

        async def handle_event(self, event, **kw):
            mw = self.mw
            t = asyncio.current_task()
            rec = dict(self._sample(), t=mw.w.now, seq=mw.next_seq(), event=event.name, task=t.get_name() if t else None, task_id=mw.task_serial(t), kw=sorted(kw))
            if event.name == "CONNECTION_FINISHED":
                rec["kw_facade_is_none"] = kw.get("facade") is None
            mw.events.append(rec)
            if event.name == "CLIENT_HAS_STATUS_SENSOR" and self.status_sensor is not None:
                # a client watching the status sensor (a UI label): what it reads INSIDE its notification
                from geckolib import GeckoSpaState

                def _sensor_changed(sender=None, old=None, new=None, _man=self):
                    try:
                        shown = _man.status_sensor.state
                    except Exception as e_:  # noqa
                        shown = f"raised {type(e_).__name__}"
                    mw.sensor_notifications.append({"t": mw.w.now, "seq": mw.next_seq(), "shown": shown, "state": _man._spa_state.name, "expected": GeckoSpaState.to_string(_man._spa_state), "old": old, "new": new})

                try:
                    self.status_sensor.watch(_sensor_changed)
                except Exception:  # noqa
                    pass
            if mw.on_event is not None:
                mw.on_event(self, event.name)
            # (not while the delivering task is being cancelled: an exception raised then replaces the
            # CancelledError - Python semantics - and whether the pump should survive that is outside C08)
            if mw.raise_events and mw.raises_left > 0 and event.name in mw.raise_events and not (t is not None and t.cancelling()) and mw.r.random() < 0.6:
                # a client handler that fails: the phase this event belongs to raises
                mw.raises_left -= 1
                rec["raised"] = True
                raise ClientHandlerFailed(f"client handler failed on {event.name}")
            if mw.reset_in_handler and event.name in mw.reset_in_handler and mw.resets_in_handler_left > 0:
                # a client that reacts to this event by resetting the manager, right here in its handler
                mw.resets_in_handler_left -= 1
                rec["reset_from_handler"] = True
                await self.async_reset()
            d = mw.suspend(event.name)
            if d is not None:
                rec["suspended"] = d
                await asyncio.sleep(d)

        async def async_reset(self):
            mw = self.mw
            t = asyncio.current_task()
            rec = {"api": "async_reset", "t0": mw.w.now, "seq0": mw.next_seq(), "task": t.get_name() if t else None, "before": self._sample(), "t1": None, "exc": None}
            # connection endpoints open when the reset starts (C10: all closed once it is over)
            rec["conn_endpoints_before"] = [tr for tr in mw.w.loop.transports if not tr.closed and not tr.kw.get("allow_broadcast")]
            # ... and the connection's tasks alive at that moment, with the instant each one ends
            rec["conn_tasks_before"] = []
            # (by name prefix, and - whatever their name - every task the manager's own task farm holds
            # that is neither the manager's nor a discovery helper: commands the client started)
            farm = {id(x) for x in getattr(self, "_tasks", []) if not x.get_name().startswith(("SPAMAN:", "LOC:", "ASYNC:"))}
            for tk in asyncio.all_tasks():
                if (tk.get_name().startswith(("SPA:", "FACADE:")) or id(tk) in farm) and not tk.done():
                    ent = {"name": tk.get_name(), "done_at": None, "id": mw.task_serial(tk)}
                    rec["conn_tasks_before"].append(ent)
                    tk.add_done_callback(lambda _t, ent=ent: ent.__setitem__("done_at", mw.w.now))
            mw.api.append(rec)
            try:
                return await super().async_reset()
            except BaseException as e:
                rec["exc"] = type(e).__name__
                raise
            finally:
                rec["t1"] = mw.w.now
                rec["seq1"] = mw.next_seq()
                rec["after"] = self._sample()

        async def async_set_spa_info(self, *a, **k):
            mw = self.mw
            rec = {"api": "async_set_spa_info", "args": [None if x is None else str(x) for x in a], "t0": mw.w.now, "seq0": mw.next_seq(), "before": self._sample(), "t1": None, "exc": None}
            mw.api.append(rec)
            try:
                return await super().async_set_spa_info(*a, **k)
            except BaseException as e:
                rec["exc"] = type(e).__name__
                raise
            finally:
                rec["t1"] = mw.w.now
                rec["seq1"] = mw.next_seq()

        async def async_locate_spas(self, *a, **k):
            mw = self.mw
            rec = {"api": "async_locate_spas", "t0": mw.w.now, "seq0": mw.next_seq(), "t1": None, "exc": None}
            mw.api.append(rec)
            try:
                return await super().async_locate_spas(*a, **k)
            except BaseException as e:
                rec["exc"] = type(e).__name__
                raise
            finally:
                rec["t1"] = mw.w.now
                rec["seq1"] = mw.next_seq()

        async def async_connect_to_spa(self, *a, **k):
            mw = self.mw
            rec = {"api": "async_connect_to_spa", "t0": mw.w.now, "seq0": mw.next_seq(), "t1": None, "exc": None}
            mw.api.append(rec)
            try:
                return await super().async_connect_to_spa(*a, **k)
            except BaseException as e:
                rec["exc"] = type(e).__name__
                raise
            finally:
                rec["t1"] = mw.w.now
                rec["seq1"] = mw.next_seq()

    return MonMan


class ClientHandlerFailed(Exception):
    pass


class Phase:
    def __init__(self, mode, dur, p=0.0):
        self.mode, self.dur, self.p = mode, dur, p

    def as_list(self):
        return [self.mode, round(self.dur, 2), self.p]


class ManWorld:
    def __init__(self, r, regime="B", snapshot="default.snapshot", suspend="none", identifier=SPA_ID_STR, address="10.0.0.1", max_iter=12_000_000, wall_cap=600):
        from . import contracts

        contracts.install()
        self.r = r
        self.w = World(r, "B", max_iter=max_iter, wall_cap=wall_cap)
        self.regime = regime
        self.tap = install_queue_tap()
        path = snapshot if os.path.isabs(snapshot) else os.path.join(snapshot_dir(), snapshot)
        self.sim = SimHost(self.w.net, path)
        self.events, self.api, self.samples = [], [], []
        self.sensor_notifications = []
        self.reset_in_handler, self.resets_in_handler_left = None, 0
        self.suspend_mode = suspend
        self.suspend_events = None
        self.mode = "healthy"
        self.p = 0.0
        self.w.net.fault = self._fault
        self.man = None
        self.kw = {"spa_address": address, "spa_identifier": identifier, "spa_name": "Sim Spa"}
        self.phase_log = []
        self.healthy_since = self.w.now
        self.raise_events, self.raises_left = None, 0  # client handler failures (event names, budget)
        self.on_event = None  # harness callback(man, event_name) at delivery, before any suspension
        self._seq = 0
        import weakref

        self._tser, self._tser_n = weakref.WeakKeyDictionary(), 0

    def task_serial(self, t):
        """A number that identifies a task object for the whole scenario (id() values are reused)."""
        if t is None:
            return None
        n = self._tser.get(t)
        if n is None:
            self._tser_n += 1
            n = self._tser[t] = self._tser_n
        return n

    def next_seq(self):
        self._seq += 1
        return self._seq

    # ---- client handler behaviour
    def suspend(self, event_name):
        m = self.suspend_mode
        if m == "none":
            return None
        if self.suspend_events is not None and event_name not in self.suspend_events:
            return None
        if m == "tick":
            return 0
        if m == "seconds":
            return self.r.choice([0.3, 1.0, 3.0])
        x = self.r.random()  # mixed
        return None if x < 0.5 else (0 if x < 0.8 else self.r.choice([0.2, 1.0, 3.0]))

    # ---- network phases
    def _fault(self, d):
        if self.mode == "blackout":
            return []
        if self.mode == "nopoll":
            # the facade's own polls (watercare, reminders) go unanswered; pings and everything else pass
            if d.dir == "c2s" and d.verb in ("GETWC", "REQRM"):
                return []
            return None
        if self.mode == "slowconnect":
            # no ping gets through at all, and the first p requests of each handshake step are lost
            if d.verb == "APING":
                return []
            if d.dir == "c2s" and d.verb in ("AVERS", "CURCH", "SFILE", "STATU"):
                n = self._slow.get(d.verb, 0)
                if n < self.p:
                    self._slow[d.verb] = n + 1
                    return []
            return None
        if self.mode == "lossy" and self.r.random() < self.p:
            return []
        return None

    def set_phase(self, ph: Phase):
        self.mode, self.p = ph.mode, ph.p
        self._slow = {}
        self.sim.up = ph.mode != "absent"
        self.sim.sim._do_rferr = ph.mode == "rferr"
        if ph.mode == "absent":
            self.mode = "blackout"
        # "down": the interface is down - every send fails with an OS error that asyncio reports
        # to the protocol's error_received(), nothing is delivered either way
        self.w.net.send_error = OSError(101, "Network is unreachable") if ph.mode == "down" else None
        if ph.mode == "down":
            self.mode = "blackout"
        self.phase_log.append((self.w.now, ph.mode, ph.p))
        if ph.mode == "healthy":
            self.healthy_since = self.w.now

    # ---- sampling
    def pump_task(self):
        if getattr(self, "_pump", None) is not None:
            return self._pump
        for t in getattr(self.man, "_tasks", []):
            if t.get_name() == "SPAMAN:Sequence Pump":
                self._pump = t  # the tidy loop forgets finished tasks: keep our own reference
                return t
        return None

    async def sampler(self, period=0.25):
        while True:
            s = self.man._sample()
            pt = self.pump_task()
            s.update(t=self.w.now, seq=self.next_seq(), pump_alive=(pt is not None and not pt.done()), mode=self.mode)
            self.samples.append(s)
            await asyncio.sleep(period)

    async def wait_state(self, name, timeout):
        t0 = self.w.now
        while self.w.now - t0 < timeout:
            if self.man._spa_state.name == name:
                return True
            await asyncio.sleep(0.1)
        return False

    def library_tasks(self):
        return [t for t in asyncio.all_tasks(self.w.loop) if t.get_name().split(":")[0] in ("SPA", "FACADE", "LOC", "SPAMAN", "ASYNC") and not t.done()]

    def open_transports(self):
        return [t for t in self.w.loop.transports if not t.closed]

    def close(self):
        self.w.close()
