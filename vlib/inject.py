"""Line-level yield injection under real threads (sys.monitoring, Python 3.12).

A LINE callback restricted to chosen code objects calls time.sleep(0) with a seeded
probability, i.e. it forces GIL hand-offs *between the lines* of the critical
sections - the Python analogue of a race detector's schedule perturbation.
"""
from __future__ import annotations

import random
import sys
import threading
import time

TOOL = 3


class YieldInjector:
    def __init__(self, codes, prob=0.3, seed=0, switch=1e-6):
        self.codes = list(codes)
        self.prob = prob
        self.seed = seed
        self.switch = switch
        self.events = 0
        self.yields = 0
        self._tl = threading.local()
        self._old_switch = None
        self._ctr = 0

    def _rng(self):
        r = getattr(self._tl, "r", None)
        if r is None:
            self._ctr += 1
            r = self._tl.r = random.Random(self.seed * 1000003 + self._ctr)
        return r

    def _line(self, code, line):
        self.events += 1  # deliberately unsynchronised statistics
        if self._rng().random() < self.prob:
            self.yields += 1
            time.sleep(0)

    def __enter__(self):
        mon = sys.monitoring
        mon.use_tool_id(TOOL, "verif-yield")
        mon.register_callback(TOOL, mon.events.LINE, self._line)
        for c in self.codes:
            mon.set_local_events(TOOL, c, mon.events.LINE)
        self._old_switch = sys.getswitchinterval()
        sys.setswitchinterval(self.switch)
        return self

    def __exit__(self, *a):
        mon = sys.monitoring
        for c in self.codes:
            mon.set_local_events(TOOL, c, 0)
        mon.register_callback(TOOL, mon.events.LINE, None)
        mon.free_tool_id(TOOL)
        sys.setswitchinterval(self._old_switch)
