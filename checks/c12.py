"""C12 - device inventory equals the spa's output wiring, with unique keys.

Monitor: for generated output wirings written into the block, the real facades'
pumps / blowers / lights / sensors / binary sensors / devices / get_device are compared
with a reference inventory computed independently from the block (reference decoder,
the table's key lists, and a device table pinned in the harness).  The threaded facade
is additionally run under several PYTHONHASHSEED values.
"""
from __future__ import annotations

from checks.c03 import pairs
from checks.c11 import make_async, make_threaded
from vlib import tables
from vlib.common import NCPU, Run, Shard, describe_exc, rng, run_shards

# pinned from the audited commit (name, keypad, state item, class)
REF_DEVICES = {
    "P1": ("Pump 1", 1, "P1", "PUMP"),
    "P2": ("Pump 2", 2, "P2", "PUMP"),
    "P3": ("Pump 3", 3, "P3", "PUMP"),
    "P4": ("Pump 4", 4, "P4", "PUMP"),
    "P5": ("Pump 5", 5, "P5", "PUMP"),
    "BL": ("Blower", 6, "BL", "BLOWER"),
    "Waterfall": ("Waterfall", 23, "Waterfall", "PUMP"),
    "LI": ("Lights", 16, "UdLi", "LIGHT"),
}
REF_BINARY = [("Circulating Pump", "CP"), ("Pump Run", "PumpRun"), ("Ozone", "O3"), ("Smart Winter Mode:Active", "SwmActive"), ("Filter Status:Clean", "Clean"), ("Filter Status:Purge", "Purge")]
REF_SENSORS = [("Smart Winter Mode:Risk", "SwmRisk")]
CLASS_OF = {"PUMP": "GeckoPump", "BLOWER": "GeckoBlower", "LIGHT": "GeckoLight"}


def ref_inventory(refs, cfg, log, block):
    conns = []
    for out in cfg.output_keys:
        v = refs[out].decode(block)
        if v != "NA":
            conns.append(v)
    present = [d for d in log.all_device_keys if any(v.startswith(d) for v in conns)]
    present = list(dict.fromkeys(present))
    user = []
    for d in present:
        for ud in log.user_demand_keys:
            if ("Ud" + d).upper() == ud.upper():
                user.append((d, ud))
    user = [(d, ud) for d, ud in user if d in REF_DEVICES]
    return conns, user


from vlib.common import load_findings  # noqa: E402

KNOWN_C11_BUILD = {f["key"] for f in load_findings() if f.get("status") == "known" and f.get("property") == "C11" and ":facade-build:" in f.get("key", "")}


def check_facade(sh, kind, facade, spa, refs, cfg, log, block, wit):
    conns, user = ref_inventory(refs, cfg, log, block)
    exp = {"PUMP": [], "BLOWER": [], "LIGHT": []}
    for d, ud in user:
        exp[REF_DEVICES[d][3]].append((d, ud))
    got = {"PUMP": facade.pumps, "BLOWER": facade.blowers, "LIGHT": facade.lights}
    keyp = f"C12:{kind}"
    for cls in ("PUMP", "BLOWER", "LIGHT"):
        gk = [x.key for x in got[cls]]
        ek = [d for d, _ in exp[cls]]
        if gk != ek:
            if sorted(gk) == sorted(ek) and len(set(gk)) == len(gk):
                sh.violation(f"{keyp}:order:{cls}", f"{kind} facade lists {cls.lower()}s {gk}, table order is {ek}", dict(wit, got=gk, expected=ek))
            elif len(set(gk)) != len(gk):
                sh.violation(f"{keyp}:duplicate:{cls}", f"{kind} facade lists a device twice: {gk} (expected {ek})", dict(wit, got=gk, expected=ek))
            else:
                sh.violation(f"{keyp}:inventory:{cls}", f"{kind} facade lists {cls.lower()}s {gk}, the wiring gives {ek}", dict(wit, got=gk, expected=ek, connections=conns))
            continue
        for dev, (d, ud) in zip(got[cls], exp[cls]):
            name, keypad, state_item, _ = REF_DEVICES[d]
            state = refs[state_item].decode(block)
            prob = []
            if type(dev).__name__ != CLASS_OF[cls]:
                prob.append(f"class {type(dev).__name__}")
            if dev.name != name:
                prob.append(f"name {dev.name!r} != {name!r}")
            if getattr(dev, "device_class", None) != cls:
                prob.append(f"device_class {getattr(dev, 'device_class', None)}")
            if cls == "PUMP":
                if dev.mode != state:
                    prob.append(f"mode {dev.mode!r} != state item {state_item} = {state!r}")
                if list(dev.modes) != list(refs[ud].labels) or dev._user_demand["demand"] != ud:
                    prob.append(f"demand {dev._user_demand['demand']} / modes {dev.modes} != {ud} / {refs[ud].labels}")
            on = (state is True) if isinstance(state, bool) else (state != "OFF")
            if bool(dev.is_on) != on:
                prob.append(f"is_on {dev.is_on} but state item {state_item} = {state!r}")
            if prob:
                sh.violation(f"{keyp}:device-props:{d}", f"{kind} facade device {d}: " + "; ".join(prob), dict(wit, device=d))
            else:
                sh.count("devices_matched")
    # sensors whose items exist
    es = [n for n, k in REF_SENSORS if k in refs]
    eb = [n for n, k in REF_BINARY if k in refs]
    if [s.name for s in facade.sensors] != es or [s.name for s in facade.binary_sensors] != eb:
        sh.violation(f"{keyp}:sensors", f"{kind} facade sensors {[s.name for s in facade.sensors]} / {[s.name for s in facade.binary_sensors]}, items present give {es} / {eb}", wit)
    for s_, (n, k) in zip(facade.binary_sensors, [(n, k) for n, k in REF_BINARY if k in refs]):
        if refs[k].inside_block() and s_.state != refs[k].decode(block):
            sh.violation(f"{keyp}:sensor-state", f"binary sensor {n} reads {s_.state!r}, item {k} = {refs[k].decode(block)!r}", wit)
    # keys and unique ids
    devs = [d for d in facade.all_automation_devices if d is not None]
    keys = [d.key for d in devs]
    uids = [d.unique_id for d in devs]
    if len(set(keys)) != len(keys) or len(set(uids)) != len(uids):
        dup = sorted({k for k in keys if keys.count(k) > 1})
        sh.violation(f"{keyp}:keys-not-unique", f"automation keys / unique ids are not distinct: duplicates {dup}", dict(wit, keys=keys))
    else:
        for d in devs:
            # looked up the way a client does: by an equal key that is a different string object
            # (read from a configuration store, a command line, JSON)
            k2 = "".join(list(d.key)) if isinstance(d.key, str) else d.key
            if facade.get_device(d.key) is not d or facade.get_device(k2) is not d:
                sh.violation(f"{keyp}:lookup", f"get_device({d.key!r}) does not return that device (by the device's own key object: {facade.get_device(d.key) is d}; by an equal string: {facade.get_device(k2) is d})", wit)
                break
    # the inventory lists and the lookup must speak of the same objects: every listed pump, blower
    # and light is found under its key, and no other user device is
    listed = [x for cls in ("PUMP", "BLOWER", "LIGHT") for x in got[cls]]
    for dev in listed:
        if facade.get_device(dev.key) is not dev:
            sh.violation(f"{keyp}:lookup", f"get_device({dev.key!r}) does not return the device the facade lists under {type(dev).__name__.replace('Gecko', '').lower()}s (returns {facade.get_device(dev.key)!r})", dict(wit, device=dev.key))
            break
    user_classes = tuple(CLASS_OF.values())
    stray = [d.key for d in devs if type(d).__name__ in user_classes and not any(d is x for x in listed)]
    if stray:
        sh.violation(f"{keyp}:devices-list", f"all_automation_devices / devices contain user devices {stray} that the facade's pump, blower and light lists do not", dict(wit, stray=stray))
    if facade.devices != keys:
        sh.violation(f"{keyp}:devices-list", f"facade.devices {facade.devices} != keys of all automation devices {keys}", wit)
    sh.see("inventory_shapes", (len(exp["PUMP"]), len(exp["BLOWER"]), len(exp["LIGHT"])))
    if any(conns.count(v) > 1 for v in conns):
        sh.count("wirings_with_label_on_several_outputs")
    devs_wired = {d for d in log.all_device_keys if any(v.startswith(d) for v in conns)}
    if any(d not in [u for u, _ in user] for d in devs_wired):
        sh.count("wirings_with_device_without_demand_or_unknown_class")


def gen_block(r, refs, cfg, log, base):
    b = bytearray(base)
    outs = [refs[o] for o in cfg.output_keys]
    style = r.choice(["random", "sparse", "same-device", "pumps-only", "low-only", "all-na"])
    for ref in outs:
        labs = list(range(min(len(ref.labels), ref.mask + 1)))
        raw = 0
        if style == "random":
            raw = r.choice(labs)
        elif style == "sparse":
            raw = r.choice(labs) if r.random() < 0.3 else (ref.labels.index("NA") if "NA" in ref.labels else 0)
        elif style == "same-device":
            cand = [i for i in labs if ref.labels[i].startswith(("P1", "BL"))]
            raw = r.choice(cand) if cand else r.choice(labs)
        elif style == "pumps-only":
            cand = [i for i in labs if ref.labels[i][:1] == "P" and ref.labels[i][1:2].isdigit()]
            raw = r.choice(cand) if cand and r.random() < 0.8 else (ref.labels.index("NA") if "NA" in ref.labels else 0)
        elif style == "low-only":
            cand = [i for i in labs if ref.labels[i].endswith("L") and ref.labels[i][:1] == "P"]
            raw = r.choice(cand) if cand and r.random() < 0.5 else (ref.labels.index("NA") if "NA" in ref.labels else 0)
        else:
            raw = ref.labels.index("NA") if "NA" in ref.labels else 0
        word = int.from_bytes(b[ref.pos : ref.pos + ref.width], "big")
        word = (word & ~ref.field_mask) | ((raw & ref.mask) << ref.shift)
        b[ref.pos : ref.pos + ref.width] = word.to_bytes(ref.width, "big")
    return style, bytes(b)


def shard(sh: Shard, combos, seed, nwire, kinds, hashseed=None):
    tables.install_decl_capture()
    from geckolib.driver import GeckoAsyncStructure

    bad_build = set()
    for combo in combos:
        plat, c, l = combo
        r = rng("C12", seed, combo)
        st = GeckoAsyncStructure(None, None)
        pack, cfg, log = tables.load_struct(st, plat, c, l)
        refs = {t: tables.ref_of(a) for t, a in st.accessors.items()}
        if not all(o in refs and refs[o].kind == "Enum" and refs[o].inside_block() for o in cfg.output_keys):
            sh.count("combos_skipped_outputs_not_enum")
            continue
        # ambiguity monitor: no output label matches two different device keys by prefix
        for o in cfg.output_keys:
            for lab in set(refs[o].labels):
                m = [d for d in log.all_device_keys if lab != "NA" and lab.startswith(d)]
                if len(set(m)) > 1:
                    sh.see("ambiguous_output_labels", f"{plat}-cfg-{c}/log-{l}:{lab}->{sorted(set(m))}")
        for wi in range(nwire):
            base = bytes(r.randrange(256) for _ in range(1024)) if wi % 2 else bytes(1024)
            style, block = gen_block(r, refs, cfg, log, base)
            for kind in kinds:
                maker = make_async if kind == "async" else make_threaded
                wit = {"tables": list(combo), "wiring_style": style, "outputs": {o: refs[o].decode(block) for o in cfg.output_keys}, "hashseed": hashseed}
                sh.evaluations += 1
                try:
                    spa, build = maker(plat, c, l, block)
                    facade = build()
                except Exception as e:
                    bad_build.add((kind, plat, l))
                    # the platform-logs on which no facade can be built at all are C11's recorded
                    # findings; a wiring on any other table pair that makes construction fail leaves
                    # the wired devices unexposed
                    if f"C11:facade-build:{kind}:{plat}-log-{l}" in KNOWN_C11_BUILD:
                        sh.count("facade_not_constructible_skipped(C11)")
                    else:
                        d = describe_exc(e)
                        sh.violation(f"C12:{kind}:facade-build", f"the {kind} facade cannot be constructed for this wiring on {plat} cfg {c} / log {l}: {d['type']}: {d['msg']} - none of the wired devices is exposed", dict(wit, exc=d))
                    continue
                try:
                    check_facade(sh, kind, facade, spa, refs, cfg, log, block, wit)
                    if kind == "threaded" and wi % 3 == 0 and hasattr(facade, "scan_outputs"):
                        # the blocking facade's public scan can be run again (outputs re-wired, a second
                        # on_connected): the inventory must be the same, each device once
                        facade.scan_outputs()
                        sh.count("threaded_rescans")
                        check_facade(sh, kind, facade, spa, refs, cfg, log, block, dict(wit, rescan=True))
                        # ... and again after the outputs were really re-wired: inventory, device
                        # list and lookup must all follow the new wiring
                        style2, block2 = gen_block(r, refs, cfg, log, base)
                        spa.struct.set_status_block(block2)
                        facade.scan_outputs()
                        sh.count("threaded_rescans_after_rewiring")
                        check_facade(sh, kind, facade, spa, refs, cfg, log, block2, dict(wit, rescan="after re-wiring", wiring_style=style2, outputs={o: refs[o].decode(block2) for o in cfg.output_keys}))
                except Exception as e:
                    d = describe_exc(e)
                    if d["where"] == "repo":
                        sh.violation(f"C12:{kind}:raise", f"{d['type']}: {d['msg']} while reading the inventory", dict(wit, exc=d))
                    else:
                        raise
                sh.see("wiring_styles", style)
        sh.nontrivial(f"{plat}-{c}-{l}:{kinds}:{hashseed}")
    if combos:
        sh.sample({"tables": combos[0], "wirings_per_combo": nwire, "facades": kinds, "PYTHONHASHSEED": hashseed})


def main(tier, seed):
    run = Run("C12", tier, seed, "exploration")
    ps = tables.combos() if tier == "thorough" else pairs()
    n = NCPU
    nwire = 10 if tier == "quick" else 60
    jobs = [{"combos": ps[i::n], "seed": seed, "nwire": nwire, "kinds": ["async"]} for i in range(n) if ps[i::n]]
    run.absorb(run_shards("checks.c12", "shard", jobs, timeout=3400))
    # threaded facade under several string-hash seeds
    hs = [0, 1, 2, 3, 7, 11, 42, 99] if tier == "quick" else list(range(0, 32))
    sub = pairs()
    jobs, envs = [], []
    for i, h in enumerate(hs):
        part = sub[i % 4 :: 4] if tier == "quick" else sub
        jobs.append({"combos": part, "seed": seed, "nwire": 4 if tier == "quick" else 10, "kinds": ["threaded"], "hashseed": h})
        envs.append({"PYTHONHASHSEED": str(h)})
    run.absorb(run_shards("checks.c12", "shard", jobs, timeout=3400, env_list=envs))
    run.need(run.counters.get("devices_matched", 0) > 2000, "too few devices compared")
    run.need(run.counters.get("wirings_with_label_on_several_outputs", 0) > 50, "too few wirings with one label on several outputs")
    run.need(len(run.sets.get("inventory_shapes", set())) >= 8, "too few distinct inventory shapes")
    amb = run.sets.get("ambiguous_output_labels", set())
    run.extra["ambiguous_output_labels"] = sorted(amb)[:20]
    if amb:
        run.inconc(f"{len(amb)} output label(s) match two device keys by prefix - 'wired to' is ambiguous for them")
    run.extra["hash_seeds_for_threaded_facade"] = hs
    return run.finish(
        rule="generated output wirings (any subset of outputs wired to any label, the same device/label on several outputs, low-speed-only, pumps only, nothing wired) written into random and zero blocks on table pairs covering every module (thorough: all 895 combinations); async facade in-process, threaded facade in subprocesses under 8 (thorough: 32) PYTHONHASHSEED values; one evaluation = one facade built on one wiring; distinct = (table pair, facade kind, hash seed)",
        assumptions=["reference inventory: device keys of the log table in table order for which some non-NA output label starts with the key and a user demand 'Ud'+key exists (case-insensitive), restricted to the device table pinned in the harness", "combinations on which the facade cannot be constructed are C11's subject (skipped, counted)"],
    )


def replay(path):
    from vlib.common import replay_args

    return main(*replay_args(path))
