"""C20 / C01 / C05 threaded twin on real sockets: the real blocking client (GeckoSpa with its own OS
socket and engine thread, ping thread) and the real simulator (own engine thread), several pairs
in one process, over UDP on 127.0.0.1.  No scheduler of mine is involved: real pre-emption, real
kernel queues.  Cross-check of the baton-scheduler model, and real interleavings.

Judged (timing-independent):
  * a handshake that completes leaves a block identical to the simulator's; no library thread dies
    with an unexpected exception (threading.excepthook);
  * status transfers started afterwards (fault scripts at the simulator's OS socket) end with the
    requested bytes equal to the spa's and nothing foreign, or with the block untouched;
  * partial updates sent by the simulator: block equality at quiescence, one STATQ per STATP;
  * datagrams leave the client's OS socket in the order they were queued (FIFO) - pacing is only
    measured here (wall-clock).
A handshake that does not complete within its generous wall-clock budget is counted, not judged."""
from __future__ import annotations

import contextlib
import io
import struct
import threading
import time

from checks.c01 import CaseFault, make_blocks, nseg
from vlib.common import Shard, describe_exc, rng


def wait_until(pred, limit, step=0.02):
    t0 = time.monotonic()
    while time.monotonic() - t0 < limit:
        if pred():
            return True
        time.sleep(step)
    return pred()


def quiesce(sim, spa, settle=0.3, limit=20):
    t0 = time.monotonic()
    last = (len(sim.sock.rx), len(sim.sock.tx))
    quiet = time.monotonic()
    while time.monotonic() - t0 < limit:
        time.sleep(0.05)
        cur = (len(sim.sock.rx), len(sim.sock.tx))
        if cur != last or sim.engine._send_handlers or spa._send_handlers or any(t.is_alive() for t in sim.sock.timers):
            last, quiet = cur, time.monotonic()
        elif time.monotonic() - quiet >= settle:
            return True
    return False


def one_pair(sh: Shard, n, tier, seed, died, parts):
    from geckolib.driver import GeckoPartialStatusBlockProtocolHandler as P
    from geckolib.driver import GeckoStatusBlockProtocolHandler as SB
    from geckolib.spa import GeckoSpa
    from geckolib.spa_descriptor import GeckoSpaDescriptor
    from vlib.realworld import RealSim

    r = rng("C20real", seed, n)
    snap = ["default.snapshot", "inYT-Pump1Hi-2020-12-13 11_19_35.snapshot", "inYJ-All off-2020-12-18 11_24_09.snapshot"][n % 3]
    try:
        sim = RealSim(snap)
    except OSError as e:
        sh.count("real_world_unavailable")
        sh.see("real_world_errors", repr(e))
        return
    spa = None
    try:
        # ---- handshake, one attempt of one step lost
        step_verbs = {"version": ("AVERS", "SVERS"), "channel": ("CURCH", "CHCUR"), "config": ("SFILE", "FILES"), "status": ("STATU", "STATV")}
        lossy = r.choice(list(step_verbs) + ["none"])
        how = r.choice(["request", "reply"])
        seen = {"n": 0}

        def hs_fault(d):
            if lossy == "none":
                return None
            req, rep = step_verbs[lossy]
            if d.dir == "c2s" and d.verb == req:
                seen["n"] += 1
                if how == "request" and seen["n"] == 1:
                    return []
            if d.dir == "s2c" and d.verb == rep and how == "reply" and seen["n"] == 1:
                if rep != "STATV":
                    return []
                i = d.data.find(b"<DATAS>") + 7
                if d.data[i + 5] == 3:  # one segment of the first chain
                    return []
            return None

        sim.sock.fault = hs_fault
        cid = b"IOS02ac6d28-42d0-41e3-ad22-274d0aa4%04x" % (0xA000 + n)
        desc = GeckoSpaDescriptor(cid, b"SPA01:02:03:04:05:06", "Sim", sim.addr)
        spa = GeckoSpa(desc)
        with contextlib.redirect_stdout(io.StringIO()):
            spa.start_connect()
        ok = wait_until(lambda: spa._is_connected, 150)
        sim.sock.fault = None
        sh.evaluations += 1
        wit = {"world": "real-udp", "pair": n, "snapshot": snap, "lost": [lossy, how]}
        if not ok:
            sh.count("real_handshake_incomplete_not_judged")
            return
        if "handshake" not in parts:
            if spa.struct.status_block != sim.block:
                sh.count("real_handshake_block_differs_not_judged_here")
                return
        elif spa.struct.status_block != sim.block:
            sh.violation("C20:handshake:block-differs", f"handshake over real UDP completed but the client's block ({len(spa.struct.status_block)} bytes) differs from the simulator's", wit)
        else:
            sh.count("real_handshakes_completed")
            sh.see("real_handshake_loss", f"{lossy}:{how}")
            sh.nontrivial(f"RH:{n}:{lossy}:{how}")
        spa.refresh = lambda: None  # the ping thread's periodic refresh would overlap the judged transfers
        quiesce(sim, spa)
        # ---- status transfers with faults at the spa's socket
        shapes = [(0, 1024), (256, 479), (5, 78), (100, 117), (700, 156)]
        for k in range((3 if tier == "quick" else 25) if "transfers" in parts else 0):
            st, L = r.choice(shapes)
            nn = nseg(L)
            i = r.randrange(nn)
            kind = r.choice(["none", "drop-seg", "dup-seg", "swap" if i < nn - 1 else "dup-seg", "drop-req", "dup-req", "drop-last"])
            spec = {"kind": kind, "idx": i, "attempts": [1]}
            cr = rng("C20realcase", seed, n, k)
            S, B0 = make_blocks(cr, "random")
            spa.struct.set_status_block(B0)
            sim.set_block(S)
            fault = CaseFault(spec, cr)
            sim.sock.fault = fault
            req = SB.request(spa.get_and_increment_sequence_counter(False), st, L, parms=spa.sendparms)
            spa.struct.retry_request(spa, req, spa.sendparms)
            done = wait_until(lambda: req not in spa._receive_handlers, 90)
            sim.sock.fault = None
            quiesce(sim, spa)
            after = spa.struct.status_block
            sh.evaluations += 1
            sh.count("real_threaded_transfers")
            w2 = dict(wit, start=st, length=L, fault=spec, removed=done)
            if not done:
                sh.count("real_threaded_transfer_unfinished_not_judged")
                continue
            if len(after) != 1024:
                sh.violation("C01:threaded:block-size", f"client block is {len(after)} bytes after a transfer over real UDP", w2)
                continue
            foreign = [j for j in range(1024) if after[j] != B0[j] and after[j] != S[j]][:8]
            if foreign:
                sh.violation("C01:threaded:foreign-bytes", f"bytes changed to something that is not the spa's value at {foreign} (real UDP)", w2)
            part = after[st : st + L]
            if part == S[st : st + L]:
                sh.count("real_threaded_success")
            elif after == B0:
                sh.count("real_threaded_failure")
            else:
                sh.violation("C01:threaded:wrong-bytes", "after a transfer over real UDP the requested range is neither the spa's nor is the block untouched", w2)
            sh.see("real_threaded_fault_kinds", kind)
            if fault.hit or kind == "none":
                sh.nontrivial(f"RT:{n}:{st}:{L}:{kind}:{i}")
        # ---- partial updates from the spa
        sim.set_block(spa.struct.status_block)
        local = tuple(sim.sock.rx[-1][2][:2])
        parms = (local[0], local[1], cid, b"SPA01:02:03:04:05:06")
        if parms not in sim.sim._clients:
            sim.sim._clients.append(parms)
        uniq = [0x0100 + 0x1000 * n]
        for rd in range((4 if tier == "quick" else 40) if "partials" in parts else 0):
            rx0, tx0 = len(sim.sock.rx), len(sim.sock.tx)
            for _ in range(r.randrange(1, 7)):
                changes = []
                for _ in range(r.choice([0, 1, 2, 5, 12, 127, 128, 200])):
                    uniq[0] += 1
                    changes.append((r.choice([r.randrange(0, 1022), 300, 301, 1021]), struct.pack(">H", uniq[0] & 0xFFFF)))
                b = bytearray(sim.block)
                for pos, data in changes:
                    b[pos : pos + 2] = data
                sim.set_block(bytes(b))
                sim.say(P.report_changes(sim.engine, changes, parms=parms), parms)
            if not quiesce(sim, spa, limit=30):
                sh.count("real_quiesce_timeouts")
                continue
            # (real time: judged once the acknowledgements have caught up, or after 60 s)
            wait_until(lambda: len([x for x in sim.sock.rx[rx0:] if b"<DATAS>STATQ" in x[1]]) >= len([x for x in sim.sock.tx[tx0:] if b"<DATAS>STATP" in x[1]]) and not sim.engine._send_handlers and not spa._send_handlers, 60, step=0.1)
            time.sleep(0.1)
            sent = [x for x in sim.sock.tx[tx0:] if b"<DATAS>STATP" in x[1]]
            acks = [x for x in sim.sock.rx[rx0:] if b"<DATAS>STATQ" in x[1]]
            sh.evaluations += 1
            w3 = dict(wit, round=rd, statp_sent=len(sent), statq_received=len(acks))
            if spa.struct.status_block != sim.block:
                bad = [j for j in range(min(len(spa.struct.status_block), 1024)) if spa.struct.status_block[j] != sim.block[j]][:6]
                sh.violation("C05:threaded:block-mismatch", f"blocking client: block differs from the spa's at {bad} after partial updates over real UDP", dict(w3, positions=bad))
                sim.set_block(spa.struct.status_block) if len(spa.struct.status_block) == 1024 else None
            else:
                sh.count("real_threaded_histories_matched")
            if len(acks) != len(sent):
                sh.violation("C05:threaded:ack-count", f"blocking client: {len(sent)} partial updates sent over real UDP, {len(acks)} acknowledgements came back", w3)
            for _, data, src in acks:
                i = data.find(b"<DATAS>") + 7
                seq = data[i + 5] if len(data) > i + 5 else -1
                if not (1 <= seq <= 191):
                    sh.violation("C05:threaded:ack-form", f"blocking client: acknowledgement with sequence {seq} (real UDP)", dict(w3, ack=data))
                else:
                    sh.count("real_threaded_acks_ok")
        # ---- FIFO of queued sends at the OS socket (pacing measured only)
        from geckolib.driver import GeckoPingProtocolHandler

        if "fifo" not in parts:
            return
        rx0 = len(sim.sock.rx)
        marks = []
        for k in range(12 if tier == "quick" else 60):
            h = GeckoPingProtocolHandler.request(parms=spa.sendparms)
            h._content = b"APING" + bytes([65 + k % 26]) + str(k).encode()  # distinguishable datagrams
            marks.append(h.send_bytes)
            spa.queue_send(h, spa.sendparms)
        wait_until(lambda: not spa._send_handlers, 30)
        time.sleep(0.2)
        got = [x for x in sim.sock.rx[rx0:] if x[1] in marks]
        sh.evaluations += 1
        order = [marks.index(x[1]) for x in got]
        if order != sorted(order) or len(set(order)) != len(order):
            sh.violation("C20:fifo:order", f"queued sends reached the spa's OS socket in order {order[:20]} (real UDP)", dict(wit, order=order))
        elif len(order) == len(marks):
            sh.count("real_fifo_batches_in_order")
            gaps = [b[0] - a[0] for a, b in zip(got, got[1:])]
            if gaps:
                sh.maximum("real_min_send_gap_ms_x1000_inverted", round(1000 - min(gaps) * 1000, 1))
    except Exception as e:
        d = describe_exc(e)
        if d["where"] == "repo":
            sh.violation("C20:real:raise", f"{d['type']}: {d['msg']} (real UDP)", d)
        else:
            raise
    finally:
        with contextlib.redirect_stdout(io.StringIO()):
            try:
                if spa is not None and spa.isopen:
                    spa.complete()
            except Exception:  # noqa
                pass
        sim.close()


def shard_real(sh: Shard, tier, seed, pairs, parts):
    died = []
    old = threading.excepthook
    # the accumulator is shared by the pair threads: serialise its methods
    lock = threading.RLock()
    for name in ("count", "see", "maximum", "nontrivial", "sample", "violation", "inconc"):
        def locked(*a, _f=getattr(sh, name), **k):
            with lock:
                return _f(*a, **k)

        setattr(sh, name, locked)

    harness_died = []

    def hook(a):
        name = a.thread.name if a.thread else "?"
        (harness_died if "one_pair" in name else died).append((name, repr(a.exc_value)))

    # everything the pair threads import is imported here first (concurrent first imports of a package
    # from several threads can see it partially initialised)
    import geckolib.driver  # noqa: F401
    import geckolib.spa  # noqa: F401
    import geckolib.spa_descriptor  # noqa: F401
    import geckolib.utils.simulator  # noqa: F401
    import geckolib.utils.snapshot  # noqa: F401
    from vlib import realworld  # noqa: F401

    threading.excepthook = hook
    import faulthandler

    # the library prints; contextlib.redirect_stdout is not thread-safe, so stdout is parked for the
    # whole run and put back explicitly
    import sys

    real_stdout = sys.stdout
    sys.stdout = io.StringIO()
    ths = [threading.Thread(target=one_pair, args=(sh, i, tier, seed, died, parts), daemon=True) for i in range(pairs)]
    for t in ths:
        t.start()
    deadline = time.monotonic() + (400 if tier == "quick" else 2400)
    for t in ths:
        t.join(max(1, deadline - time.monotonic()))
    if any(t.is_alive() for t in ths):
        sh.count("real_world_watchdog")
    threading.excepthook = old
    sys.stdout = real_stdout
    if harness_died:
        sh.inconc(f"a harness thread of the real-socket part failed: {harness_died[0]}")
    unexpected = [x for x in died if "too long" not in x[1]]
    sh.count("real_library_thread_deaths_spa_took_too_long(noted)", len(died) - len(unexpected))
    if unexpected:
        sh.violation("C20:thread-died", f"a library thread ended with an exception over real UDP: {unexpected[0]}", {"world": "real-udp", "threads": unexpected[:4]})
