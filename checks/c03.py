"""C03 - change notifications fire exactly once, iff the decoded value changed.

Monitor: recording observers (plain functions, lambdas and bound methods) on every
item of a loaded table pair; after every block update the calls are compared with
the set predicted by the reference decoder on the old and the new block.
"""
from __future__ import annotations

from vlib import tables
from vlib.common import NCPU, Run, Shard, describe_exc, known_malformed_items, rng, run_shards


class Client:
    """A client object whose bound method is used as observer."""

    def __init__(self, log, oid):
        self.log, self.oid = log, oid

    def on_change(self, sender, old, new):
        self.log(self.oid, sender, old, new)


class World:
    def __init__(self, sh, cls_name, plat, cfgv, logv, r):
        from geckolib.driver import GeckoAsyncStructure, GeckoStructure

        tables.install_decl_capture()
        self.sh, self.r, self.cls_name = sh, r, cls_name
        self.combo = f"{plat}-cfg-{cfgv}/log-{logv}"
        if cls_name == "GeckoStructure":
            self.st = GeckoStructure(lambda *a: None)
        else:

            async def _a(*a):
                pass

            self.st = GeckoAsyncStructure(lambda *a: None, _a)
        tables.load_struct(self.st, plat, cfgv, logv)
        self.refs = {}
        bad = known_malformed_items()
        stems = (f"{plat}-cfg-{cfgv}", f"{plat}-log-{logv}")
        for t, a in self.st.accessors.items():
            ref = tables.ref_of(a)
            if any((s, t) in bad for s in stems):
                sh.see("malformed_items_left_out", t)
                continue
            if ref.inside_block():
                self.refs[t] = ref
        self.calls = []
        self.cur_b1 = None
        self.next_oid = 0
        # model of the observer sets: tag -> list of (oid, callable, kind)
        self.model = {t: [] for t in self.st.accessors}
        self.removed = {}  # oid -> tag, observers that must never be called again
        self.removed_obs = {}  # oid -> (callable or None, kind) of removed observers, for re-registration
        self.clients = {}

    # ---- observers
    def log(self, oid, sender, old, new):
        ok_block = sender.struct.status_block == self.cur_b1
        try:
            ok_value = sender.value == new
        except Exception:
            ok_value = False
        self.calls.append((oid, sender.tag, old, new, ok_block, ok_value))

    def make_observer(self, kind):
        oid = self.next_oid
        self.next_oid += 1
        if kind == "function":

            def obs(sender, old, new, _oid=oid):
                self.log(_oid, sender, old, new)

        elif kind == "lambda":
            obs = lambda sender, old, new, _oid=oid: self.log(_oid, sender, old, new)  # noqa
        else:
            c = Client(self.log, oid)
            self.clients[oid] = c
            obs = None  # fetched fresh from the client on every use (bound method)
        return oid, obs

    def callable_of(self, oid, obs):
        return self.clients[oid].on_change if obs is None else obs

    def watch(self, tag, kind):
        oid, obs = self.make_observer(kind)
        self.st.accessors[tag].watch(self.callable_of(oid, obs))
        self.model[tag].append((oid, obs, kind))
        self.sh.see("observer_kinds", kind)
        return oid

    def watch_again(self, tag):
        if not self.model[tag]:
            return
        oid, obs, kind = self.r.choice(self.model[tag])
        self.st.accessors[tag].watch(self.callable_of(oid, obs))  # must be a no-op
        self.sh.count("double_registrations")

    def unwatch(self, tag):
        if not self.model[tag]:
            return
        i = self.r.randrange(len(self.model[tag]))
        oid, obs, kind = self.model[tag].pop(i)
        self.st.accessors[tag].unwatch(self.callable_of(oid, obs))
        self.removed[oid] = tag
        self.removed_obs[oid] = (obs, kind)
        self.sh.count("unwatch_calls")
        self.sh.see("unwatched_kinds", kind)

    def rewatch_removed(self, tag):
        """An observer that was removed earlier (unwatch / unwatch_all) is registered again on the
        same item - a client tearing down and rebuilding with the same callbacks."""
        cands = [(oid, x) for oid, x in self.removed_obs.items() if self.removed.get(oid) == tag]
        if not cands:
            return
        oid, (obs, kind) = self.r.choice(cands)
        self.st.accessors[tag].watch(self.callable_of(oid, obs))
        del self.removed[oid]
        del self.removed_obs[oid]
        self.model[tag].append((oid, obs, kind))
        self.sh.count("rewatch_of_removed_observer")

    def unwatch_all(self, tag):
        for oid, obs, kind in self.model[tag]:
            self.removed[oid] = tag
            self.removed_obs[oid] = (obs, kind)
        self.model[tag] = []
        self.st.accessors[tag].unwatch_all()
        self.sh.count("unwatch_all_calls")

    def exclusive_bytes(self, tag):
        """No other modelled item shares a byte with this one."""
        a = self.refs[tag]
        for t, b in self.refs.items():
            if t != tag and b.pos < a.pos + a.width and a.pos < b.pos + b.width:
                return False
        return True

    # ---- updates
    def update(self, offset, segment, geom):
        sh = self.sh
        b0 = bytes(self.st.status_block)
        b1 = b0[:offset] + segment + b0[offset + len(segment) :]
        self.calls = []
        self.cur_b1 = b1
        w = {"struct": self.cls_name, "tables": self.combo, "offset": offset, "len": len(segment), "geometry": geom}
        # every third update hands the data over in the caller's own receive buffer (a bytearray that
        # is refilled for the next update): the structure must keep its own copy
        given = segment
        if self.r.random() < 0.34:
            if not hasattr(self, "rxbuf"):
                self.rxbuf = bytearray(1024)
            self.rxbuf[: len(segment)] = segment
            given = self.rxbuf if len(segment) == 1024 else bytearray(segment)
            w["given_as"] = "reused bytearray" if len(segment) == 1024 else "bytearray"
            sh.count("updates_given_as_bytearray")
        try:
            self.st.replace_status_block_segment(offset, given)
            if given is not segment:
                for i in range(len(given)):
                    given[i] ^= 0xFF  # the caller reuses its buffer
                if bytes(self.st.status_block) != b1:
                    sh.violation("C03:block-aliases-caller-buffer", "the block changed when the caller reused the buffer it had passed to the update", w)
                    self.st.set_status_block(b1)
        except Exception as e:
            d = describe_exc(e)
            sh.violation("C03:update-raise", f"replace_status_block_segment raised {d['type']}: {d['msg']}", dict(w, exc=d))
            self.st.set_status_block(b1)
            return
        sh.evaluations += 1
        if self.st.status_block != b1:
            sh.violation("C03:block-content", "block after update is not old[:off]+segment+old[off+len:]", w)
            self.st.set_status_block(b1)
        # ---- oracle
        by = {}
        for oid, tag, old, new, okb, okv in self.calls:
            by.setdefault((tag, oid), []).append((old, new, okb, okv))
            if oid in self.removed:
                sh.violation("C03:removed-observer-called", f"observer removed from {self.removed[oid]} was called for {tag}", dict(w, item=tag))
        for tag, ref in self.refs.items():
            v0, v1 = ref.decode(b0), ref.decode(b1)
            changed = v0 != v1
            obs = self.model[tag]
            if changed and obs:
                sh.count("expected_notifications", len(obs))
                sh.see("geometry_x_shape_notified", (geom, ref.kind, ref.width, ref.bitpos is not None))
            touched = offset < ref.pos + ref.width and ref.pos < offset + len(segment)
            if touched and not changed and obs:
                if b0[ref.pos : ref.pos + ref.width] != b1[ref.pos : ref.pos + ref.width]:
                    sh.count("silent_foreign_bit_changes_checked")
                    sh.see("geometry_x_shape_silent", (geom, ref.kind, ref.width))
            for oid, o, kind in obs:
                got = by.pop((tag, oid), [])
                wi = dict(w, item=tag, shape=ref.shape(), item_pos=ref.pos, observer=kind, old=repr(v0), new=repr(v1), calls=[(repr(a), repr(b)) for a, b, _, _ in got])
                if changed and len(got) == 0:
                    sh.violation("C03:missed", f"{tag} changed {v0!r}->{v1!r} but its {kind} observer was not called ({geom})", wi)
                elif not changed and got:
                    sh.violation("C03:spurious", f"{tag} did not change ({v0!r}) but its observer was called {len(got)}x ({geom})", wi)
                elif len(got) > 1:
                    sh.violation("C03:duplicate", f"{tag} observer ({kind}) called {len(got)} times for one update", wi)
                elif changed:
                    old, new, okb, okv = got[0]
                    if ref.kind == "Temp":
                        olds = (v0 / 18.0, (v0 + 320) / 10.0)
                        news = (v1 / 18.0, (v1 + 320) / 10.0)
                        good = old in olds and new in news
                    else:
                        good = old == v0 and new == v1 and type(old) is type(v0) and type(new) is type(v1)
                    if not good:
                        sh.violation("C03:values", f"{tag} notified ({old!r},{new!r}), expected ({v0!r},{v1!r})", wi)
                    if not okb or not okv:
                        sh.violation("C03:stale-block", f"observer of {tag} did not read the new block/value during the callback", wi)
                    sh.count("notifications_matched")
        for (tag, oid), got in by.items():
            if oid not in self.removed and tag in self.refs:
                sh.violation("C03:unknown-observer", f"call for ({tag}, observer {oid}) not in the observer model", w)
        sh.see("geometries", geom)



    # ---- re-entrant update: an observer reacts to a change by updating the block again
    # (as the simulator's write delegate does).  Outer and nested patches touch disjoint
    # items, so each changed item must still be notified exactly once with its own values.
    def nested_update(self, r):
        sh = self.sh
        tags = [t for t in self.refs if self.model[t]]
        if len(tags) < 4:
            return
        b0 = self.st.status_block
        # outer: a random patch of 6..40 bytes (changes several items)
        n = r.randrange(6, 40)
        off = r.randrange(0, 1024 - n)
        seg = bytes(r.randrange(256) for _ in range(n))
        b1 = b0[:off] + seg + b0[off + n :]
        changed = [t for t in tags if self.refs[t].decode(b0) != self.refs[t].decode(b1)]
        if len(changed) < 2:
            return
        # nested: a patch at least 4 bytes away from the outer one
        n2 = r.randrange(1, 12)
        cands = [o for o in (r.randrange(0, 1024 - n2) for _ in range(20)) if o + n2 + 4 < off or o > off + n + 4]
        if not cands:
            return
        off2 = cands[0]
        seg2 = bytes(r.randrange(256) for _ in range(n2))
        b2 = b1[:off2] + seg2 + b1[off2 + n2 :]
        # the reactor sits on one of the changed items (any position in notification order)
        rt = r.choice(changed)
        # every other time the reactor writes ITS OWN item back (a client clamping / toggling the
        # value it was just told about, applied at once as the simulator's delegate does): the item
        # changes twice, each of its observers must hear both changes
        same = [t for t in changed if self.refs[t].kind != "Temp" and self.exclusive_bytes(t)]
        if same and r.random() < 0.5:
            rt = r.choice(same)
            ref = self.refs[rt]
            for _ in range(12):
                cand = bytes(r.randrange(256) for _ in range(ref.width))
                bb = b1[: ref.pos] + cand + b1[ref.pos + ref.width :]
                if ref.decode(bb) != ref.decode(b1):
                    off2, n2, seg2, b2 = ref.pos, ref.width, cand, bb
                    sh.count("nested_updates_of_the_reacting_item_itself")
                    break
        fired = []

        def reactor(sender, old, new):
            if not fired:
                fired.append(1)
                self.st.replace_status_block_segment(off2, seg2)

        self.st.accessors[rt].watch(reactor)
        self.calls = []
        self.cur_b1 = None
        calls = []
        saved_log = self.log

        def log(oid, sender, old, new):
            try:
                okv = sender.value == new
            except Exception:
                okv = False
            calls.append((oid, sender.tag, old, new, okv))

        self.log = log
        for c in self.clients.values():
            c.log = log
        w = {"struct": self.cls_name, "tables": self.combo, "geometry": "nested", "outer": [off, n], "nested": [off2, n2], "reactor_on": rt}
        try:
            self.st.replace_status_block_segment(off, seg)
        except Exception as e:
            d = describe_exc(e)
            sh.violation("C03:update-raise", f"re-entrant update raised {d['type']}: {d['msg']}", dict(w, exc=d))
            self.st.set_status_block(b2)
            return
        finally:
            self.log = saved_log
            for c in self.clients.values():
                c.log = saved_log
            self.st.accessors[rt].unwatch(reactor)
        sh.evaluations += 1
        sh.count("nested_updates")
        if self.st.status_block != b2:
            sh.violation("C03:block-content", "block after a re-entrant update is not outer-then-nested", w)
            self.st.set_status_block(b2)
            return
        by = {}
        for oid, tag, old, new, okv in calls:
            by.setdefault((tag, oid), []).append((old, new, okv))
        for tag, ref in self.refs.items():
            v0, v1, v2 = ref.decode(b0), ref.decode(b1), ref.decode(b2)
            exp = (1 if v0 != v1 else 0) + (1 if v1 != v2 else 0)
            for oid, o, kind in self.model[tag]:
                got = by.get((tag, oid), [])
                wi = dict(w, item=tag, values=[repr(v0), repr(v1), repr(v2)], observer=kind, calls=[(repr(a), repr(b)) for a, b, _ in got])
                if len(got) < exp:
                    sh.violation("C03:missed", f"{tag} changed {v0!r}->{v1!r}->{v2!r} in a re-entrant update but its {kind} observer was called {len(got)}x (nested)", wi)
                elif len(got) > exp:
                    sh.violation("C03:spurious" if exp == 0 else "C03:duplicate", f"{tag}: {len(got)} notifications in a re-entrant update, expected {exp}", wi)
                elif exp == 2 and ref.kind != "Temp":
                    if sorted((repr(a), repr(b)) for a, b, _ in got) != sorted([(repr(v0), repr(v1)), (repr(v1), repr(v2))]) and tag == rt:
                        sh.violation("C03:values", f"{tag} changed {v0!r}->{v1!r}->{v2!r} in a re-entrant update, notified {[(a, b) for a, b, _ in got]!r}", wi)
                    else:
                        sh.count("notifications_matched", 2)
                elif exp == 1 and ref.kind != "Temp":
                    old, new, okv = got[0]
                    e_old, e_new = (v0, v1) if v0 != v1 else (v1, v2)
                    if (old, new) != (e_old, e_new) or not okv:
                        sh.violation("C03:values", f"{tag} notified ({old!r},{new!r}) in a re-entrant update, expected ({e_old!r},{e_new!r})", wi)
                    else:
                        sh.count("notifications_matched")
        sh.see("geometries", "nested")


    # ---- observer-set operations made from inside a notification (one-shot observers, a client
    # tearing its watches down in reaction to a change)
    def reentrant_ops(self, r):
        sh = self.sh
        cands = [t for t, x in self.refs.items() if x.kind != "Temp"]
        tag = r.choice(cands)
        ref = self.refs[tag]
        b0 = self.st.status_block
        seg = None
        for _ in range(12):
            s_ = bytes(r.randrange(256) for _ in range(ref.width))
            b1 = b0[: ref.pos] + s_ + b0[ref.pos + ref.width :]
            if ref.decode(b0) != ref.decode(b1):
                seg = s_
                break
        if seg is None:
            return
        acc = self.st.accessors[tag]
        self.unwatch_all(tag)
        K = r.randrange(2, 6)
        ai = r.randrange(K)
        op = r.choice(["unwatch-self", "unwatch-other", "unwatch-other", "unwatch-all", "watch-new", "unwatch-self-then-rewatch-later", "hand-over", "hand-over"])
        log, removed, acted, obs = [], {}, [], []
        other = r.choice([j for j in range(K) if j != ai]) if K > 1 else None

        def newcomer(sender, old, new):
            log.append(K)

        def mk(i):
            def o(sender, old, new):
                log.append(i)
                if i == ai and not acted:
                    acted.append(1)
                    if op == "unwatch-self" or op == "unwatch-self-then-rewatch-later":
                        acc.unwatch(obs[i])
                        removed[i] = len(log)
                    elif op == "unwatch-other":
                        acc.unwatch(obs[other])
                        removed[other] = len(log)
                    elif op == "unwatch-all":
                        acc.unwatch_all()
                        for j in range(K):
                            removed[j] = len(log)
                    elif op == "hand-over":
                        # one observer goes, another comes, in the same notification (the list keeps its length)
                        acc.unwatch(obs[other])
                        removed[other] = len(log)
                        acc.watch(newcomer)
                    else:
                        acc.watch(newcomer)

            return o

        for i in range(K):
            obs.append(mk(i))
            acc.watch(obs[i])
        self.calls = []
        self.cur_b1 = b1
        w = {"struct": self.cls_name, "tables": self.combo, "geometry": "reentrant-observer-ops", "item": tag, "observers": K, "actor": ai, "op": op, "other": other}
        try:
            self.st.replace_status_block_segment(ref.pos, seg)
        except Exception as e:
            d = describe_exc(e)
            sh.violation("C03:update-raise", f"update raised {d['type']}: {d['msg']} when an observer did {op} during its notification", dict(w, exc=d))
            self.st.set_status_block(b1)
        sh.evaluations += 1
        sh.count("reentrant_observer_ops")
        sh.see("reentrant_ops", op)
        w["call_order"] = list(log)
        for i in range(K):
            n = log.count(i)
            if i in removed:
                late = [k for k, x in enumerate(log) if x == i and k >= removed[i]]
                if late:
                    sh.violation("C03:removed-observer-called", f"{tag}: observer #{i} was removed ({op} by observer #{ai}) during the notification and still called afterwards", w)
                elif n > 1:
                    sh.violation("C03:duplicate", f"{tag}: observer #{i} called {n} times for one update ({op})", w)
            elif n == 0:
                sh.violation("C03:missed", f"{tag} changed but its still-registered observer #{i} of {K} was not called: observer #{ai} did {op} during the notification", w)
            elif n > 1:
                sh.violation("C03:duplicate", f"{tag}: observer #{i} called {n} times for one update ({op})", w)
        if log.count(K) > 1:
            sh.violation("C03:duplicate", f"{tag}: an observer registered during the notification was called {log.count(K)} times", w)
        try:
            acc.unwatch_all()
        except Exception:
            pass
        self.watch(tag, r.choice(["function", "lambda", "method"]))
        sh.see("geometries", "reentrant-observer-ops")


def gen_update(w: World, r):
    """Pick an (offset, segment, geometry-name) relative to a random item."""
    b = w.st.status_block
    kind = r.choice(["full", "aligned", "second-byte", "first-byte", "adjacent-before", "adjacent-after", "foreign-bits", "noop", "random", "random39", "cover", "full-mutated", "units-flip"])
    tags = list(w.refs)
    ref = w.refs[r.choice(tags)]
    if kind == "second-byte" or kind == "first-byte":
        two = [x for x in w.refs.values() if x.width == 2]
        if two:
            ref = r.choice(two)
    rb = lambda n: bytes(r.randrange(256) for _ in range(n))  # noqa
    if kind == "full":
        return 0, rb(1024), kind
    if kind == "units-flip":
        # a full refresh in which only the temperature-units field differs: temperature items keep
        # their stored reading and must stay silent, the units item alone notifies
        u = w.refs.get("TempUnits")
        if u is None:
            return 0, rb(1024), "full"
        m = bytearray(b)
        word = int.from_bytes(m[u.pos : u.pos + u.width], "big") ^ (1 << u.shift)
        m[u.pos : u.pos + u.width] = word.to_bytes(u.width, "big")
        return 0, bytes(m), kind
    if kind == "full-mutated":
        m = bytearray(b)
        for _ in range(r.randrange(1, 30)):
            m[r.randrange(1024)] = r.randrange(256)
        return 0, bytes(m), kind
    if kind == "aligned":
        return ref.pos, rb(ref.width), kind
    if kind == "second-byte":
        return ref.pos + ref.width - 1, rb(1), kind if ref.width == 2 else "aligned"
    if kind == "first-byte":
        return ref.pos, rb(1), kind if ref.width == 2 else "aligned"
    if kind == "adjacent-before":
        n = r.choice([1, 2, 5])
        off = max(0, ref.pos - n)
        return off, rb(ref.pos - off), kind
    if kind == "adjacent-after":
        off = ref.pos + ref.width
        n = min(r.choice([1, 2, 5]), 1024 - off)
        return (off, rb(n), kind) if n > 0 else (ref.pos, rb(ref.width), "aligned")
    if kind == "foreign-bits":
        bit = [x for x in w.refs.values() if x.bitpos is not None]
        if bit:
            ref = r.choice(bit)
        word = int.from_bytes(b[ref.pos : ref.pos + ref.width], "big")
        full = (1 << (8 * ref.width)) - 1
        flip = r.randrange(1, full + 1) & ~ref.field_mask & full
        return ref.pos, (word ^ flip).to_bytes(ref.width, "big"), kind if flip else "noop"
    if kind == "noop":
        n = r.choice([1, 2, 39])
        off = r.randrange(0, 1024 - n)
        return off, b[off : off + n], kind
    if kind == "random39":
        off = r.randrange(0, 1024 - 39)
        return off, rb(39), kind
    if kind == "cover":
        a = max(0, ref.pos - r.randrange(0, 4))
        e = min(1024, ref.pos + ref.width + r.randrange(0, 4))
        return a, rb(e - a), kind
    n = r.randrange(1, 80)
    off = r.randrange(0, 1024 - n)
    return off, rb(n), kind


def history(sh, cls_name, combo, seed, nops):
    plat, c, l = combo
    r = rng("C03", seed, cls_name, combo)
    w = World(sh, cls_name, plat, c, l, r)
    w.st.replace_status_block_segment(0, bytes(r.randrange(256) for _ in range(1024)))
    tags = list(w.st.accessors)
    kinds = ["function", "lambda", "method"]
    for i, t in enumerate(tags):
        w.watch(t, kinds[i % 3])
        if r.random() < 0.3:
            w.watch(t, r.choice(kinds))
    for step in range(nops):
        x = r.random()
        t = r.choice(tags)
        if x < 0.08:
            w.nested_update(r)
        elif x < 0.14:
            w.reentrant_ops(r)
        elif x < 0.70:
            off, seg, geom = gen_update(w, r)
            w.update(off, seg, geom)
        elif x < 0.78:
            w.watch_again(t)
        elif x < 0.86:
            w.unwatch(t)
        elif x < 0.90:
            w.unwatch_all(t)
            if r.random() < 0.5:
                w.rewatch_removed(t)
        elif x < 0.93:
            w.rewatch_removed(r.choice(list(w.removed.values())) if w.removed else t)
        else:
            w.watch(t, r.choice(kinds))
    sh.nontrivial(f"{cls_name}:{plat}-cfg-{c}/log-{l}")


def shard(sh: Shard, combos, seed, nops):
    for combo in combos:
        for cls_name in ("GeckoStructure", "GeckoAsyncStructure"):
            try:
                history(sh, cls_name, tuple(combo), seed, nops)
            except Exception as e:
                d = describe_exc(e)
                if d["where"] == "repo":
                    sh.violation("C03:raise", f"{d['type']}: {d['msg']} during a watch/update history", {"combo": combo, "struct": cls_name, "exc": d})
                else:
                    raise
    sh.sample({"tables": combos[0] if combos else None, "ops": nops, "classes": ["GeckoStructure", "GeckoAsyncStructure"], "update_kinds": "full|aligned|second-byte|first-byte|adjacent|foreign-bits|noop|random|cover"})


def shard_real_refresh(sh: Shard, seed, n, client):
    """Updates as they really arrive: a refresh made by a connected client (multi-segment chain from
    the simulator) with observers on every item - blocking client under the baton scheduler, asyncio
    client in the virtual world.  One refresh = one update: each changed item notifies once with
    (old, new) of the whole refresh, and every observer already reads the complete new block."""
    from vlib.common import known_malformed_items

    tables.install_decl_capture()
    bad = known_malformed_items()
    for i in range(n):
        r = rng("C03real", seed, client, i)
        snap = r.choice(["default.snapshot", "inYT-Pump1Lo-2020-12-13 11_19_35.snapshot", "inXM-Idle-2020-12-09 11_14_06.snapshot"])
        calls = []
        state = {"b1": None}

        def obs(sender, old, new):
            try:
                okv = sender.value == new
            except Exception:
                okv = False
            calls.append((sender.tag, old, new, bytes(sender.struct.status_block) == state["b1"], okv))

        def judge(struct, refs, b0, b1, st, ln, wit):
            sh.evaluations += 1
            sh.count("real_refreshes_observed")
            by = {}
            for tag, old, new, okb, okv in calls:
                by.setdefault(tag, []).append((old, new, okb, okv))
            for tag, ref in refs.items():
                v0, v1 = ref.decode(b0), ref.decode(b1)
                got = by.get(tag, [])
                wi = dict(wit, item=tag, item_pos=ref.pos, old=repr(v0), new=repr(v1), calls=[(repr(a), repr(b)) for a, b, _, _ in got][:4])
                if v0 != v1 and not got:
                    sh.violation("C03:missed", f"{tag} changed {v0!r}->{v1!r} in a refresh made by the {client} client but its observer was not called", wi)
                elif v0 == v1 and got:
                    sh.violation("C03:spurious", f"{tag} did not change ({v0!r}) in a refresh made by the {client} client but its observer was called {len(got)}x", wi)
                elif len(got) > 1:
                    sh.violation("C03:duplicate", f"{tag} observer called {len(got)} times for one refresh made by the {client} client", wi)
                elif got:
                    old, new, okb, okv = got[0]
                    if ref.kind != "Temp" and (old != v0 or new != v1):
                        sh.violation("C03:values", f"{tag} notified ({old!r},{new!r}) for a refresh made by the {client} client, expected ({v0!r},{v1!r})", wi)
                    elif not okb or not okv:
                        sh.violation("C03:stale-block", f"observer of {tag} did not read the complete new block during a refresh made by the {client} client", wi)
                    else:
                        sh.count("notifications_matched")
            sh.nontrivial(f"realrefresh:{client}:{seed}:{i}")

        def new_content(r, blk, st, ln):
            b = bytearray(blk)
            # changes in several segments of the refreshed range, also right at segment boundaries
            for k in range(r.randrange(3, 30)):
                p_ = r.choice([st + 39 * r.randrange(0, max(1, ln // 39)) + r.choice([-1, 0, 38]), r.randrange(st, st + ln)])
                if st <= p_ < st + ln:
                    b[p_] = (b[p_] + r.randrange(1, 255)) % 256
            return bytes(b)

        if client == "blocking":
            from geckolib.driver import GeckoStatusBlockProtocolHandler as SB
            from vlib.trig import TRig
            from vlib.vthreads import Deadlock, Stuck

            rig = TRig(r, snapshot=snap)
            try:
                try:
                    if not rig.connect():
                        sh.count("real_refresh_rig_not_connected")
                        continue
                    spa = rig.spa
                    stems = ()
                    refs = {t: tables.ref_of(a) for t, a in spa.struct.accessors.items() if hasattr(a, "_verif_decl")}
                    refs = {t: x for t, x in refs.items() if x.inside_block() and not any((s_, t) in bad for s_, _ in bad)}
                    for t in refs:
                        spa.struct.accessors[t].watch(obs)
                    for rep in range(3):
                        st, ln = r.choice([(0, 1024), (256, 479), (100, 300)])
                        b0 = bytes(spa.struct.status_block)
                        nb = new_content(r, rig.sim_block, st, ln)
                        rig.set_sim_block(nb)
                        end = min(st + (-(-ln // 39)) * 39, 1024)
                        state["b1"] = b0[:st] + nb[st:end] + b0[end:]
                        del calls[:]
                        req = SB.request(spa.get_and_increment_sequence_counter(False), st, ln, parms=spa.sendparms)
                        spa.struct.retry_request(spa, req, spa.sendparms)
                        rig.s.run_until(lambda: req not in spa._receive_handlers, 60)
                        rig.quiesce(settle=0.3, limit=5)
                        if bytes(spa.struct.status_block) != state["b1"]:
                            sh.count("real_refresh_block_not_as_expected(C01)")
                            continue
                        judge(spa.struct, refs, b0, state["b1"], st, ln, {"client": client, "snapshot": snap[:20], "range": [st, ln]})
                except (Deadlock, Stuck) as e:
                    sh.inconc(f"{type(e).__name__}")
            finally:
                rig.close()
        else:
            import asyncio

            from geckolib.driver import GeckoStatusBlockProtocolHandler as SB
            from vlib.aworld import ScenarioHang, Watchdog, World
            from vlib.rig import SpaRig

            w = World(r, "B", max_iter=3_000_000, wall_cap=300)
            try:
                rig = SpaRig(w, snapshot=snap)

                async def main():
                    if not await rig.connect():
                        sh.count("real_refresh_rig_not_connected")
                        return
                    spa = rig.spa
                    refs = {t: tables.ref_of(a) for t, a in spa.struct.accessors.items() if hasattr(a, "_verif_decl")}
                    refs = {t: x for t, x in refs.items() if x.inside_block()}
                    for t in refs:
                        spa.struct.accessors[t].watch(obs)
                    for rep in range(3):
                        st, ln = r.choice([(0, 1024), (256, 479), (100, 300)])
                        b0 = bytes(spa.struct.status_block)
                        nb = new_content(r, rig.sim.block, st, ln)
                        rig.sim.set_block(nb)
                        end = min(st + (-(-ln // 39)) * 39, 1024)
                        state["b1"] = b0[:st] + nb[st:end] + b0[end:]
                        del calls[:]
                        ok = await spa.struct.get(rig.protocol, lambda: SB.request(rig.protocol.get_and_increment_sequence_counter(False), st, ln, parms=spa.sendparms), 3)
                        await rig.quiesce()
                        if not ok or bytes(spa.struct.status_block) != state["b1"]:
                            sh.count("real_refresh_block_not_as_expected(C01)")
                            continue
                        judge(spa.struct, refs, b0, state["b1"], st, ln, {"client": client, "snapshot": snap[:20], "range": [st, ln]})

                try:
                    w.run(main())
                except (ScenarioHang, Watchdog) as e:
                    sh.inconc(type(e).__name__)
            finally:
                w.close()


def pairs():
    """Table pairs such that every cfg and every log module appears at least once."""
    packs, cfgs, logs = tables.module_stems()
    out = []
    for p in packs:
        cs = sorted(tables.split_stem(c)[2] for c in cfgs if tables.split_stem(c)[0] == p)
        ls = sorted(tables.split_stem(l)[2] for l in logs if tables.split_stem(l)[0] == p)
        for i in range(max(len(cs), len(ls))):
            out.append((p, cs[i % len(cs)], ls[i % len(ls)]))
    return out


def main(tier, seed):
    run = Run("C03", tier, seed, "exploration")
    ps = pairs()
    nops = 150 if tier == "quick" else 2500
    n = NCPU
    res = run_shards("checks.c03", "shard", [{"combos": ps[i::n], "seed": seed, "nops": nops} for i in range(n) if ps[i::n]], timeout=3000)
    run.absorb(res)
    k_ = 3 if tier == "quick" else 60
    run.absorb(run_shards("checks.c03", "shard_real_refresh", [{"seed": seed * 10 + i, "n": k_, "client": ["blocking", "asyncio"][i % 2]} for i in range(4)], timeout=3000))
    run.need(run.counters.get("real_refreshes_observed", 0) >= 12, "too few refreshes made by connected clients were observed")
    g = run.sets.get("geometries", set())
    for need in ("second-byte", "first-byte", "foreign-bits", "noop", "adjacent-before", "adjacent-after", "full", "aligned", "units-flip", "nested", "reentrant-observer-ops"):
        run.need(need in g, f"update geometry {need} never exercised")
    run.need(run.counters.get("notifications_matched", 0) > 1000, "too few notifications observed")
    run.need(run.counters.get("nested_updates", 0) > 100, "too few re-entrant updates")
    run.need(run.counters.get("nested_updates_of_the_reacting_item_itself", 0) > 20, "no observer wrote its own item back from inside its notification")
    run.need(run.counters.get("reentrant_observer_ops", 0) > 100 and len(run.sets.get("reentrant_ops", set())) >= 5, "too few observer-set operations made from inside a notification")
    run.need(run.counters.get("silent_foreign_bit_changes_checked", 0) > 50, "too few silent foreign-bit changes observed")
    run.need(run.counters.get("rewatch_of_removed_observer", 0) > 20, "removed observers were hardly ever registered again")
    run.need(run.counters.get("unwatch_calls", 0) > 20 and run.counters.get("double_registrations", 0) > 20, "observer-set operations not exercised")
    run.need({"function", "lambda", "method"} <= run.sets.get("unwatched_kinds", set()), "not every observer kind was unwatched")
    return run.finish(
        rule="histories of watch/unwatch/unwatch_all/re-watch and block updates (full refresh, mutated refresh, patches aligned on / on the first byte / on the second byte of / adjacent to / covering an item, foreign-bit-only patches, no-op patches, random and 39-byte patches) on table pairs covering every cfg and log module, on both structure classes; one evaluation = one block update with every item watched; distinct = distinct (structure class, table pair) histories",
        assumptions=["reference decoder from table declarations", "temperature items: a change of the stored word is the change criterion; either unit reading accepted for old/new", "items declared outside the block are not part of the model (C18)"],
    )


def replay(path):
    from vlib.common import replay_args

    return main(*replay_args(path))
