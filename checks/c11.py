"""C11 - every shipped pack table yields a facade whose read-only API is total.

Monitor: exceptions from constructing the real facades (async and threaded) on a real
spa object carrying each platform/config/log combination and a generated block, and
from evaluating every public read-only member found by reflection (properties,
__str__, __repr__, monitor, devices, get_device) on the facade and every object it
exposes; plus watercare bytes 0..255 and reminder lists through the string renderings.
"""
from __future__ import annotations

import os

from vlib import tables
from vlib.common import NCPU, Run, Shard, describe_exc, known_malformed_items, rng, run_shards


class StubTaskman:
    unique_id = "SPA010203040506"
    spa_name = "Test Spa"

    def add_task(self, coro, name, key):
        coro.close()

    def cancel_key_tasks(self, key):
        pass


def make_async(plat, c, l, block):
    from geckolib.async_spa import GeckoAsyncSpa
    from geckolib.async_spa_descriptor import GeckoAsyncSpaDescriptor
    from geckolib.automation import GeckoAsyncFacade

    tm = StubTaskman()

    async def ev(*a, **k):
        pass

    spa = GeckoAsyncSpa(b"IOSclient", GeckoAsyncSpaDescriptor(b"SPA01:02:03:04:05:06", "Test Spa", ("10.0.0.1", 10022)), tm, ev)
    spa.struct.set_status_block(block)
    pack, cfg, log = tables.load_struct(spa.struct, plat, c, l)
    spa.pack_class, spa.config_class, spa.log_class = pack, cfg, log
    spa.pack_type = pack.type
    spa.config_version, spa.log_version = c, l
    spa._is_connected = True
    spa._last_ping = 0.0
    return spa, (lambda: GeckoAsyncFacade(spa, tm))


def make_threaded(plat, c, l, block):
    from geckolib.automation import GeckoFacade
    from geckolib.spa import GeckoSpa
    from geckolib.spa_descriptor import GeckoSpaDescriptor

    spa = GeckoSpa(GeckoSpaDescriptor(b"IOSclient", b"SPA01:02:03:04:05:06", "Test Spa", ("10.0.0.1", 10022)))
    spa.struct.set_status_block(block)
    pack, cfg, log = tables.load_struct(spa.struct, plat, c, l)
    spa.new_pack_class, spa.new_config_class, spa.new_log_class = pack, cfg, log
    spa.pack_type = pack.type
    spa.config_version, spa.log_version = c, l
    spa._is_connected = True

    def build():
        f = GeckoFacade(spa)
        f._on_connected(spa)  # the real construction path of the threaded facade
        f._update_thread.join(2)
        return f

    return spa, build


def read_members(obj):
    """(name, thunk) for every public read-only member found by reflection."""
    out = []
    for klass in type(obj).__mro__:
        for name, attr in vars(klass).items():
            if name.startswith("_") or not isinstance(attr, property):
                continue
            out.append((name, (lambda o=obj, n=name: getattr(o, n))))
    seen, uniq = set(), []
    for n, t in out:
        if n not in seen:
            seen.add(n)
            uniq.append((n, t))
    uniq += [("__str__", lambda o=obj: str(o)), ("__repr__", lambda o=obj: repr(o))]
    return uniq


def exercise(sh, facade, kind, combo, block_kind, keyp):
    objs = [("facade", facade)]
    try:
        devs = facade.all_automation_devices
    except Exception as e:
        sh.violation(f"{keyp}:facade.all_automation_devices", f"{kind} facade.all_automation_devices raised {e!r} on {combo}", {"combo": combo, "exc": describe_exc(e)})
        devs = []
    for d in devs:
        if d is not None:
            objs.append((type(d).__name__, d))
    for extra in ("error_sensor", "reminders_manager", "water_care", "water_heater", "keypad", "eco_mode"):
        try:
            o = getattr(facade, extra, None)
        except Exception:
            o = None
        if o is not None and all(o is not x for _, x in objs):
            objs.append((type(o).__name__, o))
    def inventory():
        out = []
        for n in ("pumps", "blowers", "lights", "sensors", "binary_sensors", "devices"):
            try:
                v = getattr(facade, n)
                out.append((n, len(v), tuple(getattr(x, "key", x) if not isinstance(x, str) else x for x in v)))
            except Exception:
                out.append((n, None, None))
        return out

    # a client is watching: observers of every callable kind (a plain function, a bound method, a
    # functools.partial, an object with __call__) are registered before anything is rendered
    import functools

    def _obs(*a, **k):
        pass

    class _CallableObserver:
        def __call__(self, *a, **k):
            pass

    for _, o in objs:
        w_ = getattr(o, "watch", None)
        if callable(w_):
            for ob in (_obs, functools.partial(_obs, 1), _CallableObserver(), sh.count):
                try:
                    w_(ob)
                    sh.count("client_observers_registered_before_rendering")
                except Exception:
                    pass
    inv0 = inventory()
    for cname, o in objs:
        for name, thunk in read_members(o):
            if cname == "facade" and name in ("reminders",) and kind == "threaded":
                pass
            sh.count("member_evaluations")
            try:
                v = thunk()
            except Exception as e:
                d = describe_exc(e)
                sh.violation(f"{keyp}:{cname}.{name}", f"{kind} facade on {combo[0]}-cfg-{combo[1]}/log-{combo[2]} ({block_kind} block): {cname}.{name} raised {d['type']}: {d['msg']}", {"combo": combo, "block": block_kind, "member": f"{cname}.{name}", "exc": d})
                continue
            sh.see("member_names", f"{cname}.{name}")
    # reading is reading: after every read-only member has been evaluated the inventory is what it was
    inv1 = inventory()
    if inv1 != inv0:
        ch = [(a[0], a[1], b[1]) for a, b in zip(inv0, inv1) if a != b]
        sh.violation(f"{keyp}:read-changes-state", f"{kind} facade on {combo[0]}-cfg-{combo[1]}/log-{combo[2]}: evaluating its read-only members changed the inventory (list, length before, after): {ch}", {"combo": combo, "block": block_kind, "changed": ch})
    # device list and lookup
    try:
        keys = facade.devices
        # unknown keys of any kind a caller may hold (a keypad number, nothing, bytes off the wire)
        for k in list(keys) + ["NO-SUCH-KEY", "", None, 0, 1.5, b"P1", ("P1",)]:
            got = facade.get_device(k)
            sh.count("member_evaluations")
            if k not in keys and got is not None:
                sh.violation(f"{keyp}:facade.get_device:unknown-key", f"{kind} facade: get_device({k!r}) returned {got!r} for a key that names no device", {"combo": combo, "key": repr(k)})
    except Exception as e:
        d = describe_exc(e)
        sh.violation(f"{keyp}:facade.get_device", f"{kind} facade on {combo}: devices/get_device raised {d['type']}: {d['msg']}", {"combo": combo, "exc": d})


def gen_blocks(r, refs, snaps, quick):
    """(kind, block) list for one combination."""
    out = [("zeros", bytes(1024)), ("ones", b"\xff" * 1024), ("random", bytes(r.randrange(256) for _ in range(1024)))]
    if quick and snaps:
        snaps = [snaps[r.randrange(len(snaps))]]
    for name, b in snaps[: (1 if quick else 12)]:
        out.append(("snapshot", b))
        m = bytearray(b)
        for _ in range(r.randrange(1, 40)):
            m[r.randrange(1024)] = r.randrange(256)
        out.append(("mutated-snapshot", bytes(m)))

    def setfield(b, ref, raw):
        word = int.from_bytes(b[ref.pos : ref.pos + ref.width], "big")
        word = (word & ~ref.field_mask) | ((raw & ref.mask) << ref.shift)
        b[ref.pos : ref.pos + ref.width] = word.to_bytes(ref.width, "big")

    # every enum exactly at the first unlabelled value, and one above
    for delta, kind in ((0, "enum-at-len"), (1, "enum-above-len")):
        b = bytearray(r.randrange(256) for _ in range(1024))
        for ref in refs.values():
            if ref.kind == "Enum" and ref.inside_block() and len(ref.labels) + delta <= ref.mask:
                setfield(b, ref, len(ref.labels) + delta)
        out.append((kind, bytes(b)))
    # outputs wired to drawn labels (every label appears over the runs), demands drawn
    outs = [ref for t, ref in refs.items() if t.startswith("Out") and ref.kind == "Enum" and ref.inside_block()]
    for _ in range(1 if quick else 10):
        b = bytearray(snaps[0][1] if snaps and r.random() < 0.5 else bytes(r.randrange(256) for _ in range(1024)))
        for ref in outs:
            setfield(b, ref, r.randrange(0, min(len(ref.labels), ref.mask + 1)))
        out.append(("wired-outputs", bytes(b)))
    return out


def shard(sh: Shard, combos, seed, tier, snapshots):
    tables.install_decl_capture()
    bad = known_malformed_items()
    quick = tier == "quick"
    for combo in combos:
        plat, c, l = combo
        r = rng("C11", seed, combo)
        snaps = [(n, bytes.fromhex(h)) for n, p, h in snapshots if p == plat]
        from geckolib.driver import GeckoAsyncStructure

        st = GeckoAsyncStructure(None, None)
        try:
            tables.load_struct(st, plat, c, l)
        except Exception as e:
            sh.violation(f"C11:tables-load:{plat}", f"tables {combo} cannot be loaded: {e!r}", describe_exc(e))
            continue
        refs = {t: tables.ref_of(a) for t, a in st.accessors.items()}
        for block_kind, block in gen_blocks(r, refs, snaps, quick):
            for kind, maker in (("async", make_async), ("threaded", make_threaded)):
                if quick and kind == "threaded" and block_kind in ("zeros", "ones", "snapshot", "enum-above-len"):
                    continue  # quick tier: the threaded facade gets a subset of the blocks
                sh.evaluations += 1
                keyp = f"C11:{kind}"
                try:
                    spa, build = maker(plat, c, l, block)
                except Exception as e:
                    d = describe_exc(e)
                    if d["where"] == "repo":
                        sh.violation(f"C11:spa-build:{kind}:{plat}-log-{l}", f"{kind} spa object on {combo}: {d['type']}: {d['msg']}", d)
                        continue
                    raise
                try:
                    facade = build()
                except Exception as e:
                    d = describe_exc(e)
                    sh.violation(f"C11:facade-build:{kind}:{plat}-log-{l}", f"the {kind} facade cannot be constructed on {plat} log version {l} (cfg {c}, {block_kind} block): {d['type']}: {d['msg']} at {d['frames'][-1]}", {"combo": combo, "block": block_kind, "exc": d})
                    sh.count("facade_builds_failed")
                    continue
                sh.count("facades_built")
                if block_kind in ("enum-at-len", "enum-above-len") and kind == "async":
                    # stored values outside a label list read as 'Unknown'
                    for t, ref in refs.items():
                        if ref.kind == "Enum" and ref.inside_block() and ref.raw(block) >= len(ref.labels) and (plat + "-cfg-%d" % c, t) not in bad and (plat + "-log-%d" % l, t) not in bad:
                            try:
                                v = spa.accessors[t].value
                            except Exception as e:
                                v = e
                            sh.count("out_of_range_enum_reads")
                            if v != "Unknown":
                                sh.violation("C11:unknown-label", f"{plat}: enum item {t} storing {ref.raw(block)} (labels: {len(ref.labels)}) reads {v!r} instead of 'Unknown'", {"combo": combo, "item": t})
                exercise(sh, facade, kind, combo, block_kind, keyp)
                sh.see("block_kinds", block_kind)
        sh.nontrivial(f"{plat}-{c}-{l}")
    if combos:
        sh.sample({"combination": combos[0], "blocks": ["zeros", "ones", "random", "snapshot", "mutated-snapshot", "enum-at-len", "enum-above-len", "wired-outputs"], "facades": ["async", "threaded"]})


def shard_watercare(sh: Shard, seed):
    """Any watercare mode byte / reminder list a spa can report, through the renderings."""
    from geckolib.driver import GeckoReminderType

    tables.install_decl_capture()
    block = bytes(1024)
    for kind, maker in (("async", make_async), ("threaded", make_threaded)):
        spa, build = maker("inyt", 50, 50, block)
        facade = build()
        wc = facade.water_care
        for mode in list(range(256)) + [None]:
            sh.evaluations += 1
            try:
                wc.change_watercare_mode(mode)
                for name, thunk in read_members(wc):
                    thunk()
                    sh.count("member_evaluations")
            except Exception as e:
                d = describe_exc(e)
                sh.violation(f"C11:watercare-render:{name}", f"{kind} facade: watercare mode byte {mode}: water_care.{name} raised {d['type']}: {d['msg']}", {"mode": mode, "exc": d})
        sh.count("watercare_bytes", 256)
        r = rng("C11r", seed, kind)
        rm = getattr(facade, "reminders_manager", None) or facade._reminders
        for i in range(400):
            lst = [(GeckoReminderType(r.randrange(0, 7)), r.choice([-32768, -13, -1, 0, 1, 47, 32767, r.randrange(-32768, 32768)])) for _ in range(r.randrange(0, 11))]
            sh.evaluations += 1
            try:
                rm.change_reminders(lst)
                for rem in rm.reminders:
                    str(rem), rem.description, rem.days, rem.type, rem.monitor
                for name, thunk in read_members(rm):
                    thunk()
                for t in GeckoReminderType:
                    rm.get_reminder(t)
                sh.count("reminder_lists")
            except Exception as e:
                d = describe_exc(e)
                sh.violation("C11:reminders-render", f"{kind} facade: reminder list {lst}: {d['type']}: {d['msg']}", {"list": [(int(a), b) for a, b in lst], "exc": d})
    sh.nontrivial("watercare+reminders")


def load_snapshots():
    import logging

    from geckolib.utils.snapshot import GeckoSnapshot
    from vlib.aworld import snapshot_dir

    out = []
    d = snapshot_dir()
    for fn in sorted(os.listdir(d)):
        try:
            for s in GeckoSnapshot.parse_log_file(os.path.join(d, fn)):
                if s.packtype and len(s.bytes) == 1024:
                    out.append((fn, s.packtype.lower(), s.bytes.hex()))
        except Exception:
            pass
    return out


def main(tier, seed):
    run = Run("C11", tier, seed, "exploration")
    combos = tables.combos()
    snaps = load_snapshots()
    n = NCPU
    jobs = [{"combos": combos[i::n], "seed": seed, "tier": tier, "snapshots": snaps} for i in range(n)]
    run.absorb(run_shards("checks.c11", "shard", jobs, timeout=3400))
    run.absorb(run_shards("checks.c11", "shard_watercare", [{"seed": seed}], timeout=600))
    run.need(run.counters.get("facades_built", 0) > 5000, "too few facades built")
    run.need(len(run.distinct) >= 890, "not all 895 combinations driven")
    run.need(run.counters.get("watercare_bytes", 0) >= 512, "watercare bytes not all rendered")
    run.need(run.counters.get("out_of_range_enum_reads", 0) > 10000, "too few out-of-range enum reads")
    run.extra["combinations"] = len(combos)
    run.extra["distinct_members_evaluated"] = len(run.sets.get("member_names", set()))
    return run.finish(
        rule="all platform x config x log combinations shipped (895) x blocks {all-zero, all-ones, random, shipped snapshots of the platform, mutated snapshots, every enum at its first unlabelled value and one above, output wirings over all labels} x both facades (async on a real GeckoAsyncSpa object, threaded through its real _on_connected path): construction, then every public property / __str__ / __repr__ / monitor of the facade and of every object it exposes (by reflection), devices and get_device for every key and unknown keys (string, empty, None, numbers, bytes, tuple); all watercare bytes 0..255 and 400 reminder lists through the renderings; one evaluation = one facade construction (or one watercare byte / reminder list); distinct = combinations",
        assumptions=["members are enumerated by reflection over the classes' properties; methods with side effects are not called", "a combination whose facade cannot be built is reported once per (facade kind, platform, log version)"],
    )


def replay(path):
    from vlib.common import replay_args

    return main(*replay_args(path))
