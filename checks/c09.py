"""C09 - self-healing: the manager returns to CONNECTED once the spa is reachable again.

Restated as bounded progress in virtual seconds (bounds read from the library's own
configuration tables): with H the instant the fault script ends, the manager is
CONNECTED with a facade mirroring the simulator no later than H + B_up; an outage that
begins in CONNECTED makes the state leave CONNECTED within B_down; the sequence-pump
task is alive at every sample.  Monitors: state samples over virtual time, pump task
liveness (and the exception that ended it), block equality after recovery.
"""
from __future__ import annotations

import asyncio

from vlib.common import NCPU, Run, Shard, describe_exc, rng, run_shards


def bounds():
    import geckolib.config as C

    tabs = (C._GeckoActiveConfig, C._GeckoIdleConfig)
    mx = lambda n: max(getattr(t, n) for t in tabs)  # noqa
    T, P = mx("PROTOCOL_TIMEOUT_IN_SECONDS"), mx("PAUSE_BETWEEN_RETRIES_IN_SECONDS")
    up = 2 * (mx("PING_FREQUENCY_IN_SECONDS") + 3 * (T + P) + 2 * mx("DISCOVERY_TIMEOUT_IN_SECONDS") + 10)
    down = 2 * (mx("PING_DEVICE_NOT_RESPONDING_TIMEOUT_IN_SECONDS") + 2 * (mx("PING_FREQUENCY_IN_SECONDS") + T + P))
    return up, down


def gen_script(r, tier, idx):
    from vlib.man import Phase

    kind = r.choice(["reset-in-connect", "reset-in-connect", "blackout-connected", "lossy", "rferr", "blackout-at-start", "mixed", "reset-anytime", "set-info", "interface-down", "rferr-long", "not-found-then-reset", "reset-at-step", "reset-at-step", "blackout-near-tick", "many-resets", "lossy-connect-then-long-blackout", "active-blackout", "active-blackout", "slow-lossy-first-connect", "late-configuration"])
    phases, actions = [], []
    if kind == "reset-in-connect":
        # a reset at a 100 ms step of the first connection attempt
        step = (idx % 60) * 0.1 if tier == "thorough" else round(r.uniform(0, 5.5), 1)
        actions = [(step, r.choice(["reset", "reset", "set-info"]))]
        phases = [Phase("healthy", 8)]
    elif kind == "reset-at-step":
        # a reset right after the k-th callback scheduled on the event loop since the context was
        # entered (about 260 task steps lead to CONNECTED): between two steps at the same instant
        k = (idx % 330) if tier == "thorough" else r.randrange(0, 330)
        actions = [(("step", k), r.choice(["reset", "reset", "set-info"]))]
        phases = [Phase("healthy", 8)]
    elif kind == "many-resets":
        # a long series of resets, each in the middle of the connection attempt the previous one caused:
        # the time to recover after the last one must not depend on how many came before
        # (each reset is triggered by the CONNECTION_STARTED event of the attempt it is to hit)
        actions = [(("on-connect", r.choice([14, 18, 24])), "reset")]
        phases = [Phase("healthy", 5)]
    elif kind == "lossy-connect-then-long-blackout":
        # active profile: a connection made over a very lossy link (pings go unanswered for longer than
        # the not-responding timeout while still connecting), then a healthy spell, then an outage longer
        # than the reporting bound
        # (the lossy connection is a RE-connection, made while the previous facade's active profile -
        # 10 s not-responding timeout - is still installed)
        phases = [Phase("healthy", 20), Phase("blackout", r.choice([25, 40])), Phase("lossy", r.choice([40, 70]), r.choice([0.55, 0.7])), Phase("healthy", r.choice([20, 40])), Phase("blackout", 560)]
    elif kind == "late-configuration":
        # the manager is constructed with nothing but the client id (a configuration flow that learns
        # the spa later) and is given address and identifier through async_set_spa_info
        phases = [Phase("healthy", 6)]
        actions = [(r.choice([0.0, 0.5, 2.0, 5.0]), "set-info")]
    elif kind == "active-blackout":
        # active timing profile (pump running): the missed pings themselves report the outage, long
        # before any request fails; the spa changes while unreachable
        phases = [Phase("healthy", r.choice([8, 20, 33])), Phase("blackout", r.choice([25, 60, 150]))]
    elif kind == "slow-lossy-first-connect":
        # the FIRST connection is made over a link so bad that no ping is answered for longer than the
        # not-responding timeout while still connecting; it completes; later the spa goes away
        # (the slow phase ends the moment CONNECTED is reached; no ping has been answered by then)
        # (9 of the 10 attempts of each of the four steps: well over the not-responding timeout plus a ping period)
        phases = [Phase("slowconnect", 500, 9), Phase("blackout", 560)]
    elif kind == "blackout-near-tick":
        # active timing profile (forced pump-running snapshot): the outage begins just before the
        # periodic refresh / facade update, whose retrying requests then hold the protocol lock
        # for longer than the not-responding timeout while the ping waits behind them
        import geckolib.config as C

        tick = C._GeckoActiveConfig.SPA_PACK_REFRESH_FREQUENCY_IN_SECONDS
        phases = [Phase("healthy", tick + 3.6 + r.choice([-3.0, -2.0, -1.0, -0.3, 0.5])), Phase("blackout", r.choice([60, 150, 400]))]
    elif kind == "blackout-connected":
        phases = [Phase("healthy", r.choice([6, 30, 70])), Phase("blackout", r.choice([0.5, 5, 30, 140, 400, 560]))]
    elif kind == "lossy":
        phases = [Phase("healthy", r.choice([0, 6])), Phase("lossy", r.choice([20, 100, 300]), r.choice([0.2, 0.5, 0.9]))]
    elif kind == "rferr":
        phases = [Phase("healthy", r.choice([0.5, 6, 30])), Phase("rferr", r.choice([2, 30, 200]))]
    elif kind == "interface-down":
        phases = [Phase("healthy", r.choice([0, 6, 30])), Phase("down", r.choice([5, 30, 140, 400]))]
    elif kind == "rferr-long":
        # long enough for the too-many-RF-errors escalation (more than 50 on one connection)
        phases = [Phase("healthy", r.choice([6, 30])), Phase("rferr", r.choice([400, 3600]))]
    elif kind == "not-found-then-reset":
        # both discovery windows fall into the blackout (terminal "spa not found"); the user then
        # presses reconnect / re-enters the spa details on a healthy network
        d = r.choice([26, 40, 90])
        phases = [Phase("blackout", d)]
        actions = [(d + r.choice([5, 20, 60]), r.choice(["reset", "set-info"]))]
    elif kind == "blackout-at-start":
        phases = [Phase("blackout", r.choice([0.3, 2, 8, 25]))]
    elif kind == "mixed":
        n = r.randrange(2, 6)
        phases = [Phase(r.choice(["healthy", "lossy", "blackout", "rferr", "down"]), r.choice([0.1, 1, 10, 60, 150]), r.choice([0.3, 0.7])) for _ in range(n)]
        actions = [(r.uniform(0, sum(p.dur for p in phases) + 1), "reset") for _ in range(r.choice([0, 1, 3]))]
    elif kind == "reset-anytime":
        phases = [Phase("healthy", r.choice([10, 60, 130]))]
        actions = [(r.uniform(0, phases[0].dur), r.choice(["reset", "set-info"])) for _ in range(r.choice([1, 2, 5]))]
    else:
        phases = [Phase("healthy", 20)]
        actions = [(r.uniform(0, 20), "set-info")]
    return kind, phases, (actions if kind in ("reset-at-step", "many-resets") else sorted(actions))


def scenario(sh: Shard, seed, idx, tier):
    from vlib.aworld import ScenarioHang, Watchdog
    from vlib.man import ManWorld, Phase, make_manager_class

    r = rng("C09", seed, idx)
    regime = r.choice(["B", "J"])
    suspend = r.choice(["none", "none", "tick", "tick", "seconds"])
    kind, phases, actions = gen_script(r, tier, idx)
    B_up, B_down = bounds()
    label = f"{seed}:{idx}:{kind}"
    snapshot = r.choice(["default.snapshot", "inYT-Pump1Hi-2020-12-13 11_19_35.snapshot", "inYT-all off-2020-10-23 18_00_45.snapshot"])
    if kind in ("blackout-near-tick", "lossy-connect-then-long-blackout", "active-blackout"):
        snapshot = "inYT-Pump1Hi-2020-12-13 11_19_35.snapshot"
    addr_kw = {}
    if r.random() < 0.15:
        # the configured address is a host name (resolved by the network), not the literal IP the spa
        # answers from
        addr_kw["address"] = "spa.lan"
        sh.count("scenarios_with_a_host_name_as_spa_address")
    mw = ManWorld(r, regime, suspend=suspend, snapshot=snapshot, max_iter=20_000_000, wall_cap=900, **addr_kw)
    if addr_kw:
        mw.w.net.aliases = {"spa.lan": "10.0.0.1"}
    if kind in ("blackout-connected", "active-blackout", "rferr") and r.random() < 0.35:
        # a client whose handler is slow on ONE event only - the disconnect announcement (tearing a UI
        # down takes a moment) - and instant on all others
        mw.suspend_mode = r.choice(["seconds", "seconds", "tick"])
        mw.suspend_events = {"RUNNING_SPA_DISCONNECTED"}
        suspend = mw.suspend_mode + ":only-RUNNING_SPA_DISCONNECTED"
        sh.count("scenarios_with_a_handler_slow_on_the_disconnect_announcement_only")
    out = {}
    try:
        Man = make_manager_class()

        async def main():
            async with Man(mw, "02ac6d28-42d0-41e3-ad22-274d0aa491da", **({} if kind == "late-configuration" else mw.kw)) as man:
                mw.man = man
                mw.pump_task()
                sampler = asyncio.ensure_future(mw.sampler(0.2))
                mw.w.set_regime(regime)
                t0 = mw.w.now
                pending = list(actions)
                users = []
                if pending and isinstance(pending[0][0], tuple) and pending[0][0][0] == "on-connect":
                    (_, n_), act_ = pending.pop(0)
                    left = {"n": n_}
                    gate = mw.w.loop.create_future()

                    def on_ev(man_, name):
                        if name == "CONNECTION_STARTED":
                            if left["n"] > 0:
                                left["n"] -= 1

                                def hit():
                                    users.append(asyncio.ensure_future(man.async_reset()))
                                    out.setdefault("user_action_times", []).append(mw.w.now)
                                    sh.count("user_actions")
                                    sh.count("resets_in_the_middle_of_the_attempt_they_caused")

                                mw.w.loop.call_later(r.choice([0.15, 0.3, 0.6]), hit)
                            elif not gate.done():
                                gate.set_result(True)

                    mw.on_event = on_ev
                    await asyncio.wait({gate}, timeout=n_ * 20 + 60)
                    mw.on_event = None
                elif pending and isinstance(pending[0][0], tuple):
                    (_, k_), act_ = pending.pop(0)
                    lp = mw.w.loop

                    def fire(act_=act_):
                        users.append(asyncio.ensure_future(man.async_reset() if act_ == "reset" else man.async_set_spa_info(mw.kw["spa_address"], mw.kw["spa_identifier"], mw.kw["spa_name"])))
                        sh.count("user_actions")
                        sh.count("resets_at_a_scheduler_step")

                    lp.step_target = lp.steps_scheduled + k_
                    lp.step_hook = fire
                for ph in phases:
                    mw.set_phase(ph)
                    if ph.mode in ("blackout", "lossy") and r.random() < 0.5:
                        # the spa changes while we cannot see it
                        b = bytearray(mw.sim.block)
                        b[r.randrange(300, 400)] = r.randrange(256)
                        mw.sim.set_block(bytes(b))
                    end = mw.w.now + ph.dur
                    while mw.w.now < end:
                        if ph.mode == "slowconnect" and man._spa_state.name == "CONNECTED":
                            sh.count("connections_completed_without_any_ping_answered")
                            sh.maximum("slowest_first_connection_s", round(mw.w.now - t0, 1))
                            break
                        while pending and pending[0][0] <= mw.w.now - t0:
                            _, act = pending.pop(0)
                            users.append(asyncio.ensure_future(man.async_reset() if act == "reset" else man.async_set_spa_info(mw.kw["spa_address"], mw.kw["spa_identifier"], mw.kw["spa_name"])))
                            out.setdefault("user_action_times", []).append(mw.w.now)
                            sh.count("user_actions")
                        await asyncio.sleep(0.05)
                    if ph.mode in ("blackout", "down") and man._spa_state.name in ("ERROR_PING_MISSED", "ERROR_RF_FAULT") and not out.get("user_action_times") and not users and r.random() < 0.7:
                        # the outage has been reported by the connection itself (an error state that only
                        # a reset - a complete new connection - leads out of) and the spa changes a
                        # setting OUTSIDE the window the periodic refresh re-reads (a keypad user changes
                        # the set point).  Not while a connection attempt may be under way (CONNECTING, or
                        # any state after a user reset that the pump may have interleaved with): such an
                        # attempt may have fetched its block already and would rightly never see the change
                        b = bytearray(mw.sim.block)
                        pos_ = r.choice([15, 16, 40, 100, 200])
                        b[pos_] = (b[pos_] + r.randrange(1, 255)) % 256
                        mw.sim.set_block(bytes(b))
                        sh.count("config_region_changes_while_reported_unreachable")
                mw.set_phase(Phase("healthy", 0))
                H = mw.w.now
                out["H"] = H
                # late user actions still count as part of the fault script
                while pending:
                    at, act = pending.pop(0)
                    if at > mw.w.now - t0:
                        await asyncio.sleep(at - (mw.w.now - t0))
                    users.append(asyncio.ensure_future(man.async_reset() if act == "reset" else man.async_set_spa_info(mw.kw["spa_address"], mw.kw["spa_identifier"], mw.kw["spa_name"])))
                    out.setdefault("user_action_times", []).append(mw.w.now)
                    H = mw.w.now
                out["H"] = H
                # bounded progress: CONNECTED with a live facade that mirrors the spa.  A connection
                # that survived the faults only mirrors the spa after its next periodic refresh,
                # so the mirror part gets one refresh period on top of B_up.
                import geckolib.config as C

                refresh = max(C._GeckoIdleConfig.SPA_PACK_REFRESH_FREQUENCY_IN_SECONDS, C._GeckoActiveConfig.SPA_PACK_REFRESH_FREQUENCY_IN_SECONDS) + 60
                out["t_connected"] = None
                out["t_mirror"] = None
                last_not_connected = H
                while mw.w.now - H < B_up + refresh:
                    f = man._facade
                    if man._spa_state.name == "CONNECTED":
                        if f is not None and f.spa.is_connected and f.spa.struct.status_block == mw.sim.block:
                            out["t_connected"] = last_not_connected
                            out["t_mirror"] = mw.w.now
                            break
                    else:
                        last_not_connected = mw.w.now
                        if mw.w.now - H > B_up:
                            break
                    await asyncio.sleep(0.2)
                await asyncio.sleep(1.0)
                out["final_state"] = man._spa_state.name
                out["t_final"] = mw.w.now
                out["spa_none"] = man._spa is None
                out["desc"] = man._spa_descriptors is not None
                f = man._facade
                out["mirror"] = None if f is None else (f.spa.struct.status_block == mw.sim.block)
                out["facade_live"] = None if f is None else f.spa.is_connected
                pt = mw.pump_task()
                out["pump_alive"] = pt is not None and not pt.done()
                out["pump_exc"] = None
                if pt is not None and pt.done() and not pt.cancelled():
                    e = pt.exception()
                    out["pump_exc"] = None if e is None else describe_exc(e)
                for u in users:
                    u.cancel()
                sampler.cancel()

        try:
            mw.w.run(main())
        except ScenarioHang:
            sh.inconc("scenario hang")
            return
        except Watchdog as e:
            sh.inconc(f"watchdog {e}")
            return
        sh.evaluations += 1
        ev, api = mw.events, mw.api
        wit = {"scenario": label, "regime": regime, "suspend": suspend, "snapshot": snapshot[:20], "phases": [p.as_list() for p in phases], "actions": [((round(a, 2) if not isinstance(a, tuple) else list(a)), b) for a, b in actions], "final_state": out.get("final_state"), "recovery_s": None if out.get("t_connected") is None else round(out["t_connected"] - out["H"], 2), "last_events": [(round(e["t"] - 1000, 1), e["event"], e["state"]) for e in ev[-8:]]}

        def pump_inside(rec):
            return any(e["task"] == "SPAMAN:Sequence Pump" and rec["seq0"] < e["seq"] < rec.get("seq1", 1 << 60) for e in ev)

        interleaved = any(x["api"] == "async_reset" and pump_inside(x) for x in api)
        # ---- pump liveness
        dead_sample = next((s for s in mw.samples if not s["pump_alive"]), None)
        if not out["pump_alive"] or dead_sample is not None:
            ex = out.get("pump_exc") or {}
            frames = ex.get("frames") or ["?"]
            sh.violation(f"C09:pump-died:{ex.get('type', 'unknown')}", f"the sequence pump task ended with {ex.get('type')}: {ex.get('msg')} ({frames[-1]}) - nothing drives reconnection any more", dict(wit, exc=ex))
        # ---- recovery
        elif out["t_connected"] is None:
            fs = out["final_state"]
            t_nf = max((e["t"] for e in ev if e["event"] == "SPA_NOT_FOUND"), default=0.0)
            # a user action (reset, or re-entering the spa details) made on a healthy network after the
            # terminal state was reached lifts it
            user_reset_when_healthy = any(t_ >= t_nf and mw.healthy_since <= t_ < out.get("t_final", 0) - 1.0 for t_ in out.get("user_action_times", []))
            # the known terminal state needs the discovery windows to have been hit by the fault script
            starts = [e["t"] for e in ev if e["event"] == "LOCATING_STARTED" and e["t"] < t_nf]
            w0 = starts[-2] if len(starts) >= 2 else (starts[-1] if starts else 0.0)
            log = list(mw.phase_log)
            modes_in_window = {m for (t_, m, p_), nxt in zip(log, log[1:] + [(1e18, "", 0)]) if t_ < t_nf and nxt[0] > w0}
            windows_all_healthy = bool(modes_in_window) and modes_in_window <= {"healthy"}
            if fs == "ERROR_SPA_NOT_FOUND" and windows_all_healthy:
                key = "C09:spa-not-found-on-healthy-network"
            elif fs == "ERROR_SPA_NOT_FOUND" and not user_reset_when_healthy:
                key = "C09:terminal:ERROR_SPA_NOT_FOUND"
            elif interleaved:
                key = "C09:stranded:pump-interleaved-reset"
                if getattr(mw, "suspend_events", None) == {"RUNNING_SPA_DISCONNECTED"}:
                    # the recorded finding needs a handler suspended on the facade-teardown announcement
                    # (state already IDLE while the reset is still under way); with a client that is slow on
                    # the disconnect announcement only, the unchanged tree recovers - a different outcome
                    key += ":handler-slow-on-the-disconnect-announcement-only"
            else:
                key = f"C09:not-recovered:{fs}"
            if fs == "CONNECTED":
                key = "C09:mirror" + (":pump-interleaved-reset" if interleaved else "")
                sh.violation(key, f"CONNECTED but the facade does not mirror the spa one refresh period after the bound (block equal: {out['mirror']}, spa connected: {out['facade_live']})", wit)
            else:
                sh.violation(key, f"{B_up:.0f} virtual seconds after the network became healthy the manager is in {fs} (spa object: {not out['spa_none']}, descriptors: {out['desc']}), not CONNECTED", wit)
        else:
            sh.count("recoveries")
            sh.maximum("max_recovery_seconds", round(out["t_connected"] - out["H"], 1))
            sh.maximum("max_seconds_until_mirror", round(out["t_mirror"] - out["H"], 1))
            if out["t_connected"] - out["H"] > B_up:
                sh.violation("C09:late-recovery", f"CONNECTED only {out['t_connected'] - out['H']:.0f}s after the network became healthy (bound {B_up:.0f}s)", wit)
            sh.count("mirrors_checked")
        # ---- an outage that starts in CONNECTED is reported within B_down
        for (t, mode, p), nxt in zip(mw.phase_log, mw.phase_log[1:] + [(1e18, "", 0)]):
            if mode not in ("blackout", "absent"):
                continue
            before = [s for s in mw.samples if s["t"] <= t]
            if not before or before[-1]["state"] != "CONNECTED":
                continue
            dur = nxt[0] - t
            left = next((s["t"] for s in mw.samples if s["t"] > t and s["state"] != "CONNECTED"), None)
            if dur > B_down:
                sh.count("long_outages_from_connected")
                if left is None or left - t > B_down:
                    sh.violation("C09:outage-not-reported", f"blackout began in CONNECTED; the state was still CONNECTED {B_down:.0f}s later", wit)
                else:
                    sh.maximum("max_outage_detection_seconds", round(left - t, 1))
        sh.see("script_kinds", kind)
        sh.see("final_states", out.get("final_state"))
        sh.nontrivial(label)
        if len(sh.samples) < 2:
            sh.sample(wit)
    finally:
        mw.close()


def shard(sh: Shard, seed, lo, hi, tier):
    for idx in range(lo, hi):
        try:
            scenario(sh, seed, idx, tier)
        except Exception as e:
            d = describe_exc(e)
            if d["where"] == "repo":
                sh.violation("C09:raise", f"{d['type']}: {d['msg']} escaped the manager context", d)
            else:
                raise


def main(tier, seed):
    run = Run("C09", tier, seed, "fault_enumeration")
    per = 20 if tier == "quick" else 500
    jobs = [{"seed": seed, "lo": i * per, "hi": (i + 1) * per, "tier": tier} for i in range(NCPU)]
    run.absorb(run_shards("checks.c09", "shard", jobs, timeout=3400))
    up, down = bounds()
    run.extra["bounds_virtual_seconds"] = {"B_up": up, "B_down": down}
    run.need(run.counters.get("recoveries", 0) > 60, "too few recoveries observed")
    run.need(run.counters.get("long_outages_from_connected", 0) >= 1 or tier == "quick", "no long outage from CONNECTED")
    for k in ("reset-in-connect", "blackout-connected", "lossy", "rferr", "blackout-at-start", "mixed", "interface-down", "rferr-long", "not-found-then-reset", "reset-at-step", "blackout-near-tick", "many-resets", "lossy-connect-then-long-blackout", "active-blackout", "slow-lossy-first-connect", "late-configuration"):
        run.need(k in run.sets.get("script_kinds", set()), f"script kind {k} not exercised")
    run.need(run.counters.get("config_region_changes_while_reported_unreachable", 0) >= 10, "the spa never changed a setting outside the refresh window while it was reported unreachable")
    return run.finish(
        rule="fault scripts (reset / set-spa-info at a 100 ms step of the first connection attempt - thorough: every step 0..5.9 s -, blackout while connected from 0.5 to 400 s, lossy 20-90 %, RF-error periods (up to 3600 s: past the too-many-RF-errors escalation), interface-down periods (every send fails with an OS error reported through error_received), blackout at start, mixed phase sequences with resets) followed by a healthy network, silent spa-side changes during outages (inside the refresh window; outside it once the outage has been reported), outages under the active profile, a first connection made over a link too bad for any ping to be answered, handlers none/tick/seconds, regimes B/J; one evaluation = one script; distinct = distinct scripts",
        assumptions=["'eventually' is restated as bounded progress: B_up = 2 x (ping period + 3 x (timeout+pause) + 2 x discovery timeout + 10 s), B_down = 2 x (not-responding timeout + 2 x (ping period + timeout + pause)), maxima over both configuration tables, in virtual seconds", "endpoint-creation failures are outside the statement's quantifier"],
    )


def replay(path):
    from vlib.common import replay_args

    return main(*replay_args(path))
