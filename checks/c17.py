"""C17 - active/idle configuration switching is complete and wakes every sleeper.

Monitors: (a) GeckoConfig members after every switch against the chosen table,
members enumerated from the table classes; (b) start/wake instants (virtual time) of
looping config_sleep callers around generated switch sequences; (c) the real
GeckoAsyncFacade on a connected client: after every pump/blower state change (and
after every facade rebuild on reconnect) the live table must be the active one exactly
when some pump or blower is on.
"""
from __future__ import annotations

import asyncio

from vlib import tables
from vlib.common import NCPU, Run, Shard, describe_exc, rng, run_shards


def table_members():
    import geckolib.config as C

    names = sorted({a for cls in (C._GeckoConfig, C._GeckoActiveConfig, C._GeckoIdleConfig) for a in dir(cls) if a.isupper() and not a.startswith("_")})
    return names


def check_table(sh, active, where, wit):
    import geckolib.config as C

    want = C._GeckoActiveConfig if active else C._GeckoIdleConfig
    bad = [(m, getattr(C.GeckoConfig, m, None), getattr(want, m)) for m in table_members() if getattr(C.GeckoConfig, m, None) != getattr(want, m)]
    sh.count("table_comparisons")
    if bad:
        other = C._GeckoIdleConfig if active else C._GeckoActiveConfig
        mixture = any(getattr(C.GeckoConfig, m, None) == getattr(want, m) and getattr(want, m) != getattr(other, m) for m in table_members())
        sh.violation(f"C17:table:{where}", f"after selecting {'active' if active else 'idle'} the live table differs in {[b[0] for b in bad]}" + (" (a mixture of both tables)" if mixture else ""), dict(wit, differing=bad))
        return False
    return True


def sleepers_scenario(sh: Shard, seed, idx, regime):
    import geckolib.config as C
    from vlib.aworld import REGIMES, ScenarioHang, Watchdog, World

    r = rng("C17s", seed, idx)
    w = World(r, regime, max_iter=3_000_000, wall_cap=300)
    try:
        n = r.choice([1, 2, 3, 8, 50])
        horizon = r.choice([20.0, 80.0])
        nsw = r.choice([1, 2, 3, 6, 15])
        switch_times = sorted(r.uniform(0.5, horizon) for _ in range(nsw))
        if r.random() < 0.3 and switch_times:
            switch_times.append(switch_times[0])  # two switches in the same instant
            switch_times.sort()
        sleeps = []  # (sleeper, start, delay, end)
        switches = []  # (time, active)
        stop = {"v": False}
        asked = set()  # sleeper tasks the harness itself cancelled
        raised = []  # config_sleep calls that raised although nobody cancelled the sleeper

        async def sleeper(i):
            delays = [r.choice([0.05, 0.5, 1, 2, 5, 30, 60, 120, 0, 0.0, -1, 0.001]) for _ in range(200)]
            await asyncio.sleep(r.uniform(0, 3))
            k = 0
            while not stop["v"]:
                d = delays[k % len(delays)]
                k += 1
                s = w.now
                try:
                    await C.config_sleep(d)
                except BaseException as e:  # noqa
                    if asyncio.current_task() not in asked:
                        raised.append((i, s, d, w.now, type(e).__name__))
                    raise
                sleeps.append((i, s, d, w.now))
                if d <= 0:
                    sh.count("sleeps_with_zero_or_negative_delay")
                    await asyncio.sleep(0.05)  # (a caller looping on a zero delay must not starve the others)
                if r.random() < 0.3:
                    await asyncio.sleep(r.choice([0, 0.01, 0.2]))

        async def churn(tasks):
            """some sleepers are cancelled in the middle of a sleep and new ones start afterwards
            (a facade being torn down while the ping/tidy loops keep sleeping)"""
            k = n
            while not stop["v"]:
                await asyncio.sleep(r.choice([0.3, 1.5, 4.0]))
                live = [t for t in tasks if not t.done()]
                if len(live) > 1 and r.random() < 0.6:
                    victim = r.choice(live)
                    asked.add(victim)
                    victim.cancel()
                    sh.count("sleepers_cancelled_mid_sleep")
                    await asyncio.sleep(r.choice([0.0, 0.05, 0.5]))
                    tasks.append(asyncio.ensure_future(sleeper(k)))
                    k += 1

        async def main():
            tasks = [asyncio.ensure_future(sleeper(i)) for i in range(n)]
            churner = asyncio.ensure_future(churn(tasks)) if idx % 2 else None
            await asyncio.sleep(0.2)
            t_prev = w.now
            base = w.now
            last = None
            for ts in switch_times:
                if base + ts > w.now:
                    await asyncio.sleep(base + ts - w.now)
                active = r.random() < 0.5
                t = w.now
                if r.random() < 0.35:
                    # somebody tuned one or two settings of the live table through the public
                    # GeckoConfig (an application that wants faster pings) - to the very value the
                    # table about to be selected states: the switch still installs ALL of that table
                    tgt = C._GeckoActiveConfig if active else C._GeckoIdleConfig
                    for m in r.sample(table_members(), r.choice([1, 1, 2])) + (["PING_FREQUENCY_IN_SECONDS"] if r.random() < 0.5 else []):
                        setattr(C.GeckoConfig, m, getattr(tgt, m))
                    sh.count("switches_with_settings_already_at_the_target_value")
                try:
                    C.set_config_mode(active)
                except (AssertionError, AttributeError):
                    if C.ConfigChange is not None:
                        raise
                    # a switch before anything ever slept: the library asserts (with assertions stripped,
                    # python -O, it fails on the missing future instead); outside the statement either way
                    sh.count("assert_no_sleeper_yet")
                    continue
                switches.append((t, w.now, active))
                check_table(sh, active, "set_config_mode", {"scenario": f"{seed}:{idx}", "switch_at": round(t - base, 3)})
            await asyncio.sleep(r.choice([1, 10, 130]))
            stop["v"] = True
            if churner is not None:
                churner.cancel()
            for t in tasks:
                asked.add(t)
                t.cancel()
            await asyncio.gather(*tasks, return_exceptions=True)

        try:
            w.run(main())
        except ScenarioHang:
            sh.inconc("scenario hang")
            return
        except Watchdog as e:
            sh.inconc(f"watchdog {e}")
            return
        late = REGIMES[regime][0]
        stalls = w.loop.vsel.injected_stalls
        sh.evaluations += 1
        for (i, s, d, e, exc) in raised:
            sh.violation("C17:sleep-raised", f"config_sleep({d}) of sleeper {i} raised {exc} after {e - s:.3f}s although nobody cancelled that sleeper (the other sleepers and the switches are the only other actors)", {"scenario": f"{seed}:{idx}", "sleepers": n, "sleeper": i, "delay": d, "regime": regime})
        for (i, s, d, e) in sleeps:
            sh.count("sleeps_observed")
            wit = {"scenario": f"{seed}:{idx}", "sleepers": n, "sleeper": i, "start": round(s, 4), "delay": d, "end": round(e, 4), "regime": regime, "switches": [round(x[0], 4) for x in switches]}
            if e - s > max(d, 0) + late + stalls + 0.005:
                sh.violation("C17:overslept", f"a sleeper asked for {d}s and slept {e - s:.3f}s", wit)
            inside = [sw for sw in switches if s < sw[0] and sw[1] < e - (0.002 + stalls + late)]
            # a switch strictly inside the sleep interval must have ended the sleep at once
            if inside:
                sh.violation("C17:missed-switch", f"a sleeper (start {s:.3f}, delay {d}) slept through the mode switch at {inside[0][0]:.3f} until {e:.3f}", wit)
            woke = [sw for sw in switches if s < sw[0] <= e]
            if woke:
                sh.count("wakes_by_switch")
                sh.maximum("max_wake_latency_after_switch", round(e - woke[-1][1], 5))
            else:
                sh.count("wakes_by_timeout")
        sh.nontrivial(f"S:{seed}:{idx}:{n}:{len(switches)}")
        if len(sh.samples) < 2:
            sh.sample({"part": "sleepers", "sleepers": n, "switches": [(round(a, 2), c) for a, b, c in switches], "sleeps": len(sleeps)})
    finally:
        w.close()


def facade_scenario(sh: Shard, seed, idx, regime):
    import geckolib.config as C
    from geckolib.automation import GeckoAsyncFacade
    from vlib.aworld import ScenarioHang, Watchdog, World
    from vlib.rig import SpaRig

    r = rng("C17f", seed, idx)
    snap = r.choice(["default.snapshot", "inYT-Pump1Hi-2020-12-13 11_19_35.snapshot", "inXM-Pump 1, 2 and blower running-2020-12-08 19_54_44.snapshot", "inYT-all off-2020-10-23 18_00_45.snapshot", "inYJ-All off-2020-12-18 11_24_09.snapshot"])
    w = World(r, "B", max_iter=4_000_000, wall_cap=300)
    try:
        rig = SpaRig(w, snapshot=snap)
        tables.install_decl_capture()

        async def main():
            if not await rig.connect(background=True):
                sh.inconc("rig could not connect")
                return
            rig.cancel_tasks(("SPA:Refresh loop",))
            w.set_regime(regime)
            spa = rig.spa
            for cycle in range(r.choice([1, 2, 3])):
                facade = GeckoAsyncFacade(spa, rig.taskman)
                devs = facade.pumps + facade.blowers
                refs = [(d, tables.ref_of(d._state_sensor.accessor)) for d in devs]

                def expected():
                    b = spa.struct.status_block
                    on = False
                    for d, ref in refs:
                        v = ref.decode(b)
                        on = on or (v is True if ref.kind == "Bool" else (v != "OFF"))
                    return on

                await asyncio.wait_for(facade.wait_for_one_update(), 200)
                wit0 = {"scenario": f"{seed}:{idx}", "snapshot": snap, "cycle": cycle, "devices": [d.key for d in devs]}
                sh.evaluations += 1
                check_table(sh, expected(), "first-facade-update", wit0)
                sh.see("facade_first_update_expected", expected())
                for step in range(r.randrange(3, 12)):
                    if not refs:
                        break
                    d, ref = r.choice(refs)
                    # any combination: set the state field of one device to a drawn raw value
                    raw = r.randrange(0, min(ref.mask, 3) + 1)
                    b = spa.struct.status_block
                    word = int.from_bytes(b[ref.pos : ref.pos + ref.width], "big")
                    word = (word & ~ref.field_mask) | (raw << ref.shift)
                    spa.struct.replace_status_block_segment(ref.pos, word.to_bytes(ref.width, "big"))
                    await asyncio.sleep(r.choice([0, 0, 0.05]))
                    sh.evaluations += 1
                    exp = expected()
                    sh.see("on_off_combinations", tuple(dd.is_on for dd, _ in refs))
                    check_table(sh, exp, "device-change", dict(wit0, changed=d.key, raw=raw, states=[(dd.key, str(dd.is_on)) for dd, _ in refs]))
                if refs and r.random() < 0.7:
                    # somebody else switches the mode under the facade's feet (another client object
                    # of the process, a direct call): the live facade's next update - which the switch
                    # itself wakes - must put the table back to what its pumps and blowers say
                    C.set_config_mode(not expected())
                    await asyncio.sleep(r.choice([15, 30]))
                    sh.evaluations += 1
                    sh.count("foreign_mode_switches_under_a_live_facade")
                    check_table(sh, expected(), "after-foreign-switch", dict(wit0, states=[(dd.key, str(dd.is_on)) for dd, _ in refs]))
                await facade.disconnect()
                # while nobody is watching, the spa changes (e.g. pumps go off / come on)
                if refs:
                    b = bytearray(spa.struct.status_block)
                    for d, ref in refs:
                        raw = r.choice([0, 0, 1])
                        word = int.from_bytes(b[ref.pos : ref.pos + ref.width], "big")
                        word = (word & ~ref.field_mask) | (raw << ref.shift)
                        b[ref.pos : ref.pos + ref.width] = word.to_bytes(ref.width, "big")
                    spa.struct.set_status_block(bytes(b))
                    sh.count("unobserved_changes_between_facades")
            sh.nontrivial(f"F:{seed}:{idx}:{snap[:8]}")

        try:
            w.run(main())
        except ScenarioHang:
            sh.inconc("scenario hang")
        except Watchdog as e:
            sh.inconc(f"watchdog {e}")
        except asyncio.TimeoutError:
            sh.inconc("the facade's first update did not complete within 200 virtual seconds on a healthy network")
        except Exception as e:
            d = describe_exc(e)
            if d["where"] == "repo":
                sh.violation("C17:raise", f"{d['type']}: {d['msg']}", d)
            else:
                raise
    finally:
        w.close()


def library_sleepers_scenario(sh: Shard, seed, idx):
    """The library's own configuration-aware sleepers on a real connection: the ping loop, and a
    request pausing between two attempts.  A mode switch wakes them at once: the ping loop pings,
    the pausing request makes its next attempt."""
    import geckolib.config as C
    from vlib.aworld import ScenarioHang, Watchdog, World
    from vlib.rig import SpaRig

    r = rng("C17l", seed, idx)
    w = World(r, "B", max_iter=3_000_000, wall_cap=300)
    try:
        rig = SpaRig(w)

        async def main():
            if not await rig.connect(background=True):
                sh.inconc("rig could not connect")
                return
            rig.cancel_tasks(("SPA:Refresh loop",))
            await rig.quiesce()
            await asyncio.sleep(r.choice([3.0, 7.0]))  # the ping loop is now in its long sleep
            # (1) ping loop
            d0 = len(w.net.dgrams)
            ts = w.now
            C.set_config_mode(r.random() < 0.5)
            await asyncio.sleep(0.3)
            sh.evaluations += 1
            pings = [d for d in w.net.dgrams[d0:] if d.dir == "c2s" and d.verb == "APING"]
            if not pings:
                sh.violation("C17:library-sleeper-slept-through:ping-loop", f"the ping loop (sleeping its {C.GeckoConfig.PING_FREQUENCY_IN_SECONDS}s period) sent no ping within 0.3 s of the mode switch at {ts:.2f}", {"scenario": f"{seed}:{idx}"})
            else:
                sh.count("library_sleepers_woken")
            await rig.quiesce()
            # (2) a request between two attempts: its replies are lost, the switch lands in its pause
            rig.cancel_tasks(("SPA:Ping loop",))
            await asyncio.sleep(0.2)
            w.net.fault = lambda d: [] if d.dir == "s2c" else None
            d0 = len(w.net.dgrams)
            T, P = C.GeckoConfig.PROTOCOL_TIMEOUT_IN_SECONDS, C.GeckoConfig.PAUSE_BETWEEN_RETRIES_IN_SECONDS
            call = asyncio.ensure_future(rig.spa.async_get_watercare())
            await asyncio.sleep(T + 0.2 + r.uniform(0.1, max(0.2, P - 0.9)))
            tx0 = [d for d in w.net.dgrams[d0:] if d.dir == "c2s" and d.verb == "GETWC"]
            ts = w.now
            C.set_config_mode(r.random() < 0.5)
            await asyncio.sleep(0.35)
            tx1 = [d for d in w.net.dgrams[d0:] if d.dir == "c2s" and d.verb == "GETWC"]
            sh.evaluations += 1
            if len(tx0) == 1 and len(tx1) < 2:
                sh.violation("C17:library-sleeper-slept-through:retry-pause", f"a request pausing between attempts (timeout {T}s, pause {P}s, first sent at {tx0[0].t:.2f}) made no new attempt within 0.35 s of the mode switch at {ts:.2f}", {"scenario": f"{seed}:{idx}"})
            elif len(tx0) == 1:
                sh.count("library_sleepers_woken")
            else:
                sh.count("retry_pause_probe_missed_the_pause")
            w.net.fault = None
            call.cancel()

        try:
            w.run(main())
        except (ScenarioHang, Watchdog) as e:
            sh.inconc(f"{type(e).__name__} in the library-sleepers scenario")
        except Exception as e:
            d = describe_exc(e)
            if d["where"] == "repo":
                sh.violation("C17:raise", f"{d['type']}: {d['msg']}", d)
            else:
                raise
        sh.nontrivial(f"L:{seed}:{idx}")
    finally:
        w.close()


def two_loops_scenario(sh: Shard, seed, idx):
    """Sleepers on TWO event loops of one process (one manager per loop), both pumped by hand from this
    thread - no clock involved: after a switch every sleeper, on whichever loop, has woken within a few
    iterations although it asked for a thousand seconds."""
    import geckolib.config as C
    from vlib.aworld import reset_geckolib_globals

    r = rng("C17two", seed, idx)
    reset_geckolib_globals()
    loops = [asyncio.new_event_loop() for _ in range(r.choice([2, 2, 3]))]
    woke, tasks = set(), []

    def pump(rounds=6):
        for _ in range(rounds):
            for lp in loops:
                lp.run_until_complete(asyncio.sleep(0))

    async def sleeper(k):
        await C.config_sleep(1000.0)
        woke.add(k)

    try:
        order = list(range(len(loops))) * r.choice([1, 2])
        r.shuffle(order)
        for n_, li in enumerate(order):
            tasks.append((n_, li, loops[li].create_task(sleeper(n_))))
            pump(2)
        early = set(woke)
        active = r.random() < 0.5
        C.set_config_mode(active)
        pump()
        sh.evaluations += 1
        sh.count("two_loop_scenarios")
        wit = {"scenario": f"{seed}:{idx}:two-loops", "loops": len(loops), "sleepers_on_loops": order}
        if early:
            sh.violation("C17:overslept", f"sleepers {sorted(early)} on several event loops woke before any switch", wit)
        asleep = [(n_, li) for n_, li, _ in tasks if n_ not in woke]
        if asleep:
            sh.violation("C17:missed-switch", f"after the mode switch the sleepers {asleep} (sleeper, loop) of a process with {len(loops)} event loops are still asleep (they asked for 1000 s)", wit)
        check_table(sh, active, "set_config_mode", wit)
        sh.nontrivial(f"two-loops:{seed}:{idx}")
    finally:
        for _, _, t in tasks:
            t.cancel()
        try:
            pump(2)
        except Exception:
            pass
        for lp in loops:
            lp.close()
        asyncio.set_event_loop(None)
        reset_geckolib_globals()


def shard(sh: Shard, seed, lo, hi, nf):
    for idx in range(lo, lo + 3):
        two_loops_scenario(sh, seed, idx)
    for idx in range(lo, lo + max(2, nf // 3)):
        library_sleepers_scenario(sh, seed, idx)
    for idx in range(lo, hi):
        sleepers_scenario(sh, seed, idx, ["B", "J", "J"][idx % 3])
    for idx in range(lo, lo + nf):
        facade_scenario(sh, seed, idx, ["B", "J"][idx % 2])


def main(tier, seed):
    run = Run("C17", tier, seed, "exploration")
    per, nf = (40, 10) if tier == "quick" else (1200, 300)
    jobs = [{"seed": seed, "lo": i * per, "hi": (i + 1) * per, "nf": nf} for i in range(NCPU)]
    run.absorb(run_shards("checks.c17", "shard", jobs, timeout=3000))
    # "the complete table of that mode": each mode's table states every setting itself - a setting left
    # to the placeholder base class would install the placeholder when that mode is selected
    import geckolib.config as C

    # (a setting moved to the base class on purpose keeps its value: only a setting that is no longer
    # stated AND whose effective value is no longer the audited one is a hole in the table)
    AUDITED = {
        "_GeckoActiveConfig": {"DISCOVERY_INITIAL_TIMEOUT_IN_SECONDS": 4, "DISCOVERY_TIMEOUT_IN_SECONDS": 10, "FACADE_UPDATE_FREQUENCY_IN_SECONDS": 30, "PAUSE_BETWEEN_RETRIES_IN_SECONDS": 2, "PING_DEVICE_NOT_RESPONDING_TIMEOUT_IN_SECONDS": 10, "PING_FREQUENCY_IN_SECONDS": 2, "PROTOCOL_RETRY_COUNT": 10, "PROTOCOL_TIMEOUT_IN_SECONDS": 4, "SPA_PACK_REFRESH_FREQUENCY_IN_SECONDS": 30, "TASK_TIDY_FREQUENCY_IN_SECONDS": 5},
        "_GeckoIdleConfig": {"DISCOVERY_INITIAL_TIMEOUT_IN_SECONDS": 4, "DISCOVERY_TIMEOUT_IN_SECONDS": 10, "FACADE_UPDATE_FREQUENCY_IN_SECONDS": 120, "PAUSE_BETWEEN_RETRIES_IN_SECONDS": 2, "PING_DEVICE_NOT_RESPONDING_TIMEOUT_IN_SECONDS": 120, "PING_FREQUENCY_IN_SECONDS": 60, "PROTOCOL_RETRY_COUNT": 10, "PROTOCOL_TIMEOUT_IN_SECONDS": 4, "SPA_PACK_REFRESH_FREQUENCY_IN_SECONDS": 120, "TASK_TIDY_FREQUENCY_IN_SECONDS": 60},
    }
    for cls in (C._GeckoActiveConfig, C._GeckoIdleConfig):
        for m in C.CONFIG_MEMBERS:
            run.evaluations += 1
            aud = AUDITED.get(cls.__name__, {}).get(m)
            if m not in vars(cls) and aud is not None and getattr(cls, m, None) != aud:
                run.violation(f"C17:table:incomplete:{cls.__name__}:{m}", f"the {cls.__name__} table no longer states {m}: selecting that mode installs the inherited {getattr(cls, m, None)!r} (the mode's own value was {aud!r}) - a mixture of tables", {"class": cls.__name__, "member": m})
    run.extra["table_members_checked"] = list(C.CONFIG_MEMBERS)
    run.need(run.counters.get("two_loop_scenarios", 0) >= 10, "no sleepers on two event loops of one process")
    run.need(run.counters.get("wakes_by_switch", 0) > 200 and run.counters.get("wakes_by_timeout", 0) > 200, "too few wakes by switch / by timeout")
    run.need(run.counters.get("library_sleepers_woken", 0) > 40, "the library's own sleepers (ping loop, retry pause) were hardly probed")
    run.need(run.counters.get("sleepers_cancelled_mid_sleep", 0) > 20, "no sleeper was cancelled in the middle of a sleep")
    run.need(run.counters.get("unobserved_changes_between_facades", 0) > 10, "facade rebuild after unobserved changes not exercised")
    run.need(run.counters.get("foreign_mode_switches_under_a_live_facade", 0) > 10 and run.counters.get("sleeps_with_zero_or_negative_delay", 0) > 50, "no foreign mode switch under a live facade / no zero-delay sleeps")
    run.need(len(run.sets.get("on_off_combinations", set())) >= 6, "too few on/off combinations of pumps and blowers")
    run.need({"True", "False"} <= run.sets.get("facade_first_update_expected", set()), "first facade update never expected both active and idle")
    return run.finish(
        rule="(a,b) 1-50 looping config_sleep callers with drawn delays (0.05-120 s, also 0, 0.001 and negative) and start times around 1-15 mode switches at drawn instants (incl. two switches in one instant), regimes B/J: table completeness after every switch, every sleep <= its delay, every switch strictly inside a sleep ends it at once; (c) real facade on a connected client over five snapshots: drawn pump/blower state changes, a foreign mode switch under the live facade, facade rebuilds after unobserved changes; one evaluation = one scenario / facade step; distinct = distinct scenarios",
        assumptions=["members are enumerated from the three table classes (upper-case attributes)", "a first-ever switch before any config_sleep trips an assert in the library and is only counted (the statement does not cover it)", "'at once' = within 2 ms of virtual time plus injected lateness/stalls"],
    )


def replay(path):
    from vlib.common import replay_args

    return main(*replay_args(path))
