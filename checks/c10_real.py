"""Cross-check of the FakeTransport model against reality (C10, thorough tier):
the real manager on a real asyncio loop with real UDP sockets on 127.0.0.1, the
simulator on its real engine thread.  Prints one JSON line."""
import asyncio
import contextlib
import io
import json
import logging
import os
import sys
import time


def nsock():
    n = 0
    for fd in os.listdir("/proc/self/fd"):
        try:
            if os.readlink(f"/proc/self/fd/{fd}").startswith("socket:"):
                n += 1
        except OSError:
            pass
    return n


async def run(cycles):
    from geckolib import GeckoAsyncSpaMan, GeckoSpaState
    from geckolib.utils.snapshot import GeckoSnapshot
    from vlib.aworld import quiet_simulator, snapshot_dir

    sim = quiet_simulator()
    with contextlib.redirect_stdout(io.StringIO()):
        sim.set_snapshot(GeckoSnapshot.parse_log_file(os.path.join(snapshot_dir(), "default.snapshot"))[0])
        sim.do_start("")
    out = {"cycles": cycles}
    try:

        class Man(GeckoAsyncSpaMan):
            async def handle_event(self, event, **kw):
                pass

        async def wait_connected(m, limit=40):
            t0 = time.monotonic()
            while m.spa_state != GeckoSpaState.CONNECTED:
                if time.monotonic() - t0 > limit:
                    return False
                await asyncio.sleep(0.1)
            return True

        base = nsock()
        async with Man("02ac6d28-42d0-41e3-ad22-274d0aa491da", spa_address="127.0.0.1", spa_identifier="SPA01:02:03:04:05:06", spa_name="Sim") as m:
            for i in range(cycles):
                if not await wait_connected(m):
                    return {"skipped": f"no connection over loopback in cycle {i} (state {m.spa_state})"}
                if i == 0:
                    out["fd_before"] = nsock() - base
                await m.async_reset()
            if not await wait_connected(m):
                return {"skipped": "no final connection"}
            out["fd_after"] = nsock() - base
        await asyncio.sleep(0.2)
        out["fd_after_exit"] = nsock() - base
        return out
    finally:
        with contextlib.redirect_stdout(io.StringIO()):
            sim._socket.close()


def main():
    logging.disable(logging.CRITICAL)
    cycles = int(sys.argv[1]) if len(sys.argv) > 1 else 4
    try:
        res = asyncio.run(run(cycles))
    except OSError as e:
        res = {"skipped": f"loopback UDP unavailable: {e!r}"}
    print(json.dumps(res))


if __name__ == "__main__":
    main()
