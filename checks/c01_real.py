"""C01 on real sockets: the same struct.get monitor as checks/c01.py, but the client runs on a real
asyncio selector loop and the simulator on its own engine thread, over UDP on 127.0.0.1, several
client/simulator pairs at once in one process.  Cross-check of the virtual world's model.

Judged here (timing-independent): success => requested bytes are the spa's, nothing foreign, one
install, 1024 bytes; failure => block untouched, no install; STATU on the wire <= retry count;
return type.  NOT judged here: "fault-free => success" (a loaded box may fire the client's
wall-clock timeouts early) - counted only."""
from __future__ import annotations

import asyncio
import time

from checks.c01 import SEG, CaseFault, make_blocks, nseg
from vlib.common import Shard, describe_exc, rng


async def one_case(sh: Shard, rig, case, r):
    from geckolib.driver import GeckoStatusBlockProtocolHandler

    spa, sim = rig.spa, rig.sim
    start, length, N = case["start"], case["length"], case["retries"]
    S, B0 = make_blocks(r, case.get("blocks", "random"))
    spa.struct.set_status_block(B0)
    sim.set_block(S)
    fault = CaseFault(case["fault"], r)
    rx0 = len(sim.sock.rx)
    sim.sock.fault = fault
    installs = []
    orig = spa.struct.replace_status_block_segment

    def tapped(offset, segment):
        installs.append((offset, len(segment)))
        return orig(offset, segment)

    spa.struct.replace_status_block_segment = tapped
    made = []

    def create():
        h = GeckoStatusBlockProtocolHandler.request(rig.protocol.get_and_increment_sequence_counter(False), start, length, parms=spa.sendparms)
        made.append(h)
        return h

    t0 = time.monotonic()
    exc = ret = None
    try:
        ret = await spa.struct.get(rig.protocol, create, N)
    except Exception as e:
        exc = e
    finally:
        try:
            del spa.struct.replace_status_block_segment
        except AttributeError:
            pass
    dur = time.monotonic() - t0
    after = spa.struct.status_block
    await asyncio.sleep(0.05)
    # requests as the spa's OS socket saw them (before the fault script): what was on the wire
    statu = [x for x in sim.sock.rx[rx0:] if b"<DATAS>STATU" in x[1]]
    sim.sock.fault = None
    sh.evaluations += 1
    fk = case["fault"]["kind"]
    wit = {"world": "real-udp", "pair": rig.n, "start": start, "length": length, "retries": N, "fault": case["fault"], "returned": ret, "statu_seen_by_spa": len(statu), "built": len(made), "installs": installs, "fault_hits": fault.hit, "duration": round(dur, 3), "case_seed": case["seed"]}
    sh.count("real_transfers")
    if exc is not None:
        d = describe_exc(exc)
        sh.violation("C01:async:raise", f"struct.get raised {d['type']}: {d['msg']} (real UDP)", dict(wit, exc=d))
        return
    if len(made) > N or len(statu) > N:
        sh.violation("C01:async:too-many-requests", f"{len(statu)} STATU requests reached the spa ({len(made)} built) with retry count {N} (real UDP)", wit)
    if len(after) != 1024:
        sh.violation("C01:async:block-size", f"client block is {len(after)} bytes after the transfer (real UDP)", wit)
    if ret is True:
        sh.count("real_success")
        if len(installs) != 1:
            sh.violation("C01:async:install-count", f"{len(installs)} installs during one successful transfer (real UDP)", wit)
        if after[start : start + length] != S[start : start + length]:
            bad = [i for i in range(start, min(start + length, len(after))) if after[i] != S[i]][:8]
            sh.violation("C01:async:wrong-bytes", f"transfer reported success but requested bytes differ from the spa's (first at {bad}) (real UDP)", dict(wit, first_bad=bad))
        foreign = [i for i in range(min(len(after), 1024)) if after[i] != B0[i] and after[i] != S[i]][:8]
        if foreign:
            sh.violation("C01:async:foreign-bytes", f"bytes changed to something that is not the spa's value at {foreign} (real UDP)", dict(wit, first_bad=foreign))
    elif ret is False:
        sh.count("real_failure")
        if after != B0 or installs:
            sh.violation("C01:async:failed-but-modified", "transfer reported failure but the client block was modified (real UDP)", wit)
        if fk == "none":
            sh.count("real_fault_free_failed_not_judged")
    else:
        sh.violation("C01:async:return-type", f"struct.get returned {ret!r} (real UDP)", wit)
    if (fault.hit and nseg(length) >= 2) or fk == "none":
        sh.nontrivial(f"R:{start}:{length}:{fk}:{case['fault'].get('idx')}:{case['fault'].get('attempts')}:{ret}")
    sh.see("real_fault_kinds", fk)
    sh.see("real_outcomes", f"{fk}:{ret}")
    sh.maximum("real_max_duration", round(dur, 2))


def gen_cases(tier, seed, pair):
    r = rng("C01real", seed, tier, pair)
    out = []
    cid = [0]

    def add(start, length, fault, retries=3, **kw):
        cid[0] += 1
        out.append(dict(start=start, length=length, fault=fault, retries=retries, seed=f"real:{seed}:{pair}:{cid[0]}", **kw))

    none = {"kind": "none"}
    n_free, n_enum, n_rand = (2, 2, 1) if tier == "quick" else (25, 16, 14)
    for _ in range(n_free):
        st = r.choice([0, 0, r.randrange(1024)])
        L = r.choice([1024 - st, r.randrange(1, 1025 - st), min(1024 - st, r.choice([39, 78, 117, 40, 38]))])
        add(st, max(1, L), none, retries=10, blocks=r.choice(["random", "pattern", "tags"]))
    shapes = [(0, 1024), (256, 479), (5, 78), (100, 117), (700, 156), (0, 40)]
    for _ in range(n_enum):
        st, L = r.choice(shapes)
        n = nseg(L)
        i = r.randrange(n)
        kind = r.choice(["drop-seg", "dup-seg", "swap" if i < n - 1 else "dup-seg", "drop-req", "dup-req", "drop-last"])
        spec = {"kind": kind, "idx": i, "attempts": [1] if kind != "drop-last" else r.choice([[1], [1, 2]])}
        if kind == "dup-req" and r.random() < 0.5:
            spec["gap"] = 0.3
        add(st, L, spec, retries=3)
    for _ in range(n_rand):
        st = r.choice([0, 256, r.randrange(900)])
        L = r.choice([1024 - st, r.randrange(40, 1025 - st)])
        spec = {"kind": "random", "p_drop": r.choice([0.0, 0.02, 0.1]), "p_dup": r.choice([0, 0.05, 0.3]), "p_delay": r.choice([0, 0.1, 0.5]), "max_delay": r.choice([0.03, 0.2, 0.6]), "p_drop_req": r.choice([0, 0.3]), "until_attempt": r.choice([1, 2, 10**9])}
        add(st, L, spec, retries=r.choice([1, 2, 3]), blocks=r.choice(["random", "tags"]))
    if tier != "quick":
        add(0, 1024, {"kind": "blackout"}, retries=2)
    r.shuffle(out)
    return out


def shard_real(sh: Shard, tier, seed, pairs):
    from vlib.realworld import RealRig, run_real

    async def pair_main(rig):
        if not await rig.connect():
            sh.count("real_pairs_not_connected")
            return
        sh.count("real_pairs_connected")
        for case in gen_cases(tier, seed, rig.n):
            await one_case(sh, rig, case, rng("C01case", case["seed"]))
            if not await rig.quiesce():
                sh.count("real_quiesce_timeouts")

    async def main():
        rigs = []
        try:
            for i in range(pairs):
                rigs.append(RealRig(i))
        except OSError as e:
            sh.count("real_world_unavailable")
            sh.see("real_world_errors", repr(e))
            for g in rigs:
                g.sim.close()
            return
        try:
            await asyncio.gather(*(pair_main(g) for g in rigs))
        finally:
            for g in rigs:
                await g.close()

    try:
        run_real(main(), wall=500 if tier == "quick" else 2400)
    except asyncio.TimeoutError:
        sh.count("real_world_watchdog")
