"""C05 on real sockets: unsolicited partial updates sent by the real simulator (its own engine
thread, real UDP on 127.0.0.1) to the real async client on a real asyncio loop; several
client/simulator pairs in one process.  No refresh overlaps here (the virtual world does those
with an exact processing order); the real world checks what needs no timing model:

  * after every quiescent point the client block equals the spa's (every change was applied to the
    spa's block and announced in one message, unique values);
  * the spa's OS socket received exactly one STATQ per STATP it sent, each framed from the
    client's identifier to the spa's, with a sequence in 1..191.
"""
from __future__ import annotations

import asyncio
import contextlib
import io
import struct

from checks.c05 import apply_changes
from vlib.common import Shard, describe_exc, rng


async def pair_main(sh: Shard, rig, r, rounds):
    from geckolib.driver import GeckoPartialStatusBlockProtocolHandler as P

    from vlib.rig import SPA_ID

    if not await rig.connect():
        sh.count("real_pairs_not_connected")
        return
    sh.count("real_pairs_connected")
    sim = rig.sim
    # the client's address as the spa sees it
    local = tuple(sim.sock.rx[-1][2][:2])
    cid = rig.spa.sendparms[3] if len(rig.spa.sendparms) > 3 else None
    parms = (local[0], local[1], cid, SPA_ID)
    if parms not in sim.sim._clients:
        sim.sim._clients.append(parms)
    uniq = [0x0100 + 0x1000 * rig.n]

    def word():
        uniq[0] += 1
        return struct.pack(">H", uniq[0] & 0xFFFF)

    await rig.quiesce()
    # start from agreement
    sim.set_block(rig.spa.struct.status_block)
    for rd in range(rounds):
        rx0 = len(sim.sock.rx)
        tx0 = len(sim.sock.tx)
        mode = r.choice(["one", "burst", "burst", "do_set", "big"])
        nmsg = 0
        if mode == "do_set":
            cands = [(k, a) for k, a in sim.sim.structure.accessors.items() if a.type == "Enum" and a.length == 1 and a.items and 0 <= a.pos < 1024]
            k, a = r.choice(cands)
            mx = a.bitmask if a.bitpos is not None else 255
            labs = [x for x in dict.fromkeys(a.items) if x != "" and a.items.index(x) <= mx]
            if labs:
                with contextlib.redirect_stdout(io.StringIO()):
                    sim.sim.do_set(f"{k}={r.choice(labs)}")
        else:
            for _ in range({"one": 1, "burst": r.randrange(2, 9), "big": 1}[mode]):
                n = r.choice([0, 1, 1, 2, 5, 12]) if mode != "big" else r.choice([60, 127, 128, 200, 250])
                changes = []
                for _ in range(n):
                    changes.append((r.choice([r.randrange(0, 1022), 300, 301, 1021]), word()))
                if changes and r.random() < 0.3:
                    changes.append((changes[0][0], word()))
                sim.set_block(apply_changes(sim.block, changes))
                sim.say(P.report_changes(sim.engine, changes, parms=parms), parms)
                if r.random() < 0.1:
                    sim.say(P.report_changes(sim.engine, changes, parms=parms), parms)
                    sh.count("real_statp_sent_twice_verbatim")
                if mode == "burst" and r.random() < 0.5:
                    await asyncio.sleep(r.choice([0, 0.005, 0.03]))
        if not await rig.quiesce(settle=0.3, limit=30):
            sh.count("real_quiesce_timeouts")
            continue
        # real time on a possibly loaded box: "quiet for 0.3 s" does not mean "everything has arrived".
        # The count of acknowledgements is judged once it has caught up with the count of updates, or
        # after a wait no scheduling delay explains (60 s)
        import time as _time

        t_w = _time.monotonic()
        while _time.monotonic() - t_w < 60:
            sent = [x for x in sim.sock.tx[tx0:] if b"<DATAS>STATP" in x[1]]
            acks = [x for x in sim.sock.rx[rx0:] if b"<DATAS>STATQ" in x[1]]
            if len(acks) >= len(sent) and not sim.engine._send_handlers:
                break
            await asyncio.sleep(0.1)
        if _time.monotonic() - t_w > 1.0:
            sh.count("real_rounds_that_needed_more_than_a_second_to_settle")
        await asyncio.sleep(0.1)
        sent = [x for x in sim.sock.tx[tx0:] if b"<DATAS>STATP" in x[1]]
        acks = [x for x in sim.sock.rx[rx0:] if b"<DATAS>STATQ" in x[1]]
        sh.evaluations += 1
        sh.count("real_rounds")
        sh.count("real_statp_sent", len(sent))
        wit = {"world": "real-udp", "pair": rig.n, "round": rd, "mode": mode, "statp_sent": len(sent), "statq_received": len(acks)}
        got = rig.spa.struct.status_block
        want = sim.block
        if got != want:
            bad = [i for i in range(min(len(got), len(want))) if got[i] != want[i]][:6]
            sh.violation("C05:async:block-mismatch", f"client block differs from the spa's at {bad} after a {mode} history over real UDP (size {len(got)})", dict(wit, positions=bad))
            sim.set_block(got) if len(got) == 1024 else None
        else:
            sh.count("real_histories_matched")
        if len(acks) != len(sent):
            sh.violation("C05:async:ack-count", f"{len(sent)} partial updates sent over real UDP, {len(acks)} acknowledgements came back", wit)
        for _, data, src in acks:
            i = data.find(b"<DATAS>") + 7
            seq = data[i + 5] if len(data) > i + 5 else -1
            okframe = cid is None or data.startswith(b"<PACKT><SRCCN>" + cid + b"</SRCCN><DESCN>" + SPA_ID + b"</DESCN>")
            if not (1 <= seq <= 191) or not okframe or tuple(src[:2]) != tuple(local[:2]):
                sh.violation("C05:async:ack-form", f"acknowledgement with sequence {seq} from {src}, frame ok={okframe} (real UDP)", dict(wit, ack=data))
            else:
                sh.count("real_acks_ok")
        sh.nontrivial(f"R:{rig.n}:{rd}:{mode}:{len(sent)}")
        sh.see("real_modes", mode)


def shard_real(sh: Shard, tier, seed, pairs):
    from vlib.realworld import RealRig, run_real

    rounds = 10 if tier == "quick" else 120
    snaps = ["default.snapshot", "inYT-Pump1Lo-2020-12-13 11_19_35.snapshot", "inXM-Idle-2020-12-09 11_14_06.snapshot"]

    async def main():
        rigs = []
        try:
            for i in range(pairs):
                rigs.append(RealRig(i, snapshot=snaps[i % len(snaps)]))
        except OSError as e:
            sh.count("real_world_unavailable")
            sh.see("real_world_errors", repr(e))
            for g in rigs:
                g.sim.close()
            return

        async def guarded(g):
            try:
                await pair_main(sh, g, rng("C05real", seed, g.n), rounds)
            except Exception as e:
                d = describe_exc(e)
                if d["where"] == "repo":
                    sh.violation("C05:async:raise", f"{d['type']}: {d['msg']} (real UDP)", d)
                else:
                    raise

        try:
            await asyncio.gather(*(guarded(g) for g in rigs))
        finally:
            for g in rigs:
                await g.close()

    try:
        run_real(main(), wall=500 if tier == "quick" else 2400)
    except asyncio.TimeoutError:
        sh.count("real_world_watchdog")
