"""C16 - sequence numbers: requests cycle 1..191, commands 192..255, never 0.

(a) single-threaded: both counter implementations are walked through every
    reachable (protocol, command) counter state, in several interleaving patterns,
    against two independent cycle models (exhaustive);
(b) threads: K calls from many real threads on the threaded socket with line-level
    yield injection inside the counter function; the multiset of results of each kind
    must be exactly the first K values of its cycle (unique-value history);
(c) wire: every sequence-bearing datagram sent by the async and the threaded client
    (handshake, refresh, partial-update acks, watercare, reminders, every command
    kind) carries a number of the right range - see wire_shard.
"""
from __future__ import annotations

import threading

from vlib.common import NCPU, Run, Shard, describe_exc, rng, run_shards


def succ(kind_cmd, prev):
    """Cycle successor; prev None = nothing handed out yet."""
    if kind_cmd:
        return 192 if prev in (None, 255) else prev + 1
    return 1 if prev in (None, 191) else prev + 1


def make(cls_name):
    if cls_name == "GeckoAsyncUdpProtocol":
        from geckolib.driver import GeckoAsyncUdpProtocol

        return GeckoAsyncUdpProtocol(None, None)
    from geckolib.driver import GeckoUdpSocket

    return GeckoUdpSocket()


class Model:
    def __init__(self):
        self.last = {True: None, False: None}

    def step(self, sh, cls_name, obj, kind, pattern):
        try:
            got = obj.get_and_increment_sequence_counter(kind)
        except Exception as e:
            sh.violation(f"C16:raise:{cls_name}", f"counter raised {e!r}", describe_exc(e))
            return
        exp = succ(kind, self.last[kind])
        sh.evaluations += 1
        if got != exp or type(got) is not int:
            sh.violation(
                f"C16:successor:{cls_name}:{'command' if kind else 'protocol'}",
                f"{cls_name}: {'command' if kind else 'protocol'} number after {self.last[kind]} was {got!r}, expected {exp} (pattern {pattern})",
                {"class": cls_name, "kind": "command" if kind else "protocol", "previous": self.last[kind], "got": got, "expected": exp, "other_kind_last": self.last[not kind], "pattern": pattern},
            )
        self.last[kind] = got if isinstance(got, int) else exp


def shard_single(sh: Shard, seed):
    for cls_name in ("GeckoAsyncUdpProtocol", "GeckoUdpSocket"):
        # pattern 1: torus walk - visits every (protocol, command) state pair
        obj, m = make(cls_name), Model()
        states = set()
        for rounds in range(2):
            for p in range(191):
                m.step(sh, cls_name, obj, False, "torus")
                for c in range(64):
                    m.step(sh, cls_name, obj, True, "torus")
                    states.add((m.last[False], m.last[True]))
                # one extra command call so that the command phase drifts against the
                # protocol phase and all 191 x 64 pairs are met
                if p % 3 == 0:
                    m.step(sh, cls_name, obj, True, "torus")
                    states.add((m.last[False], m.last[True]))
        # complete the product explicitly: for each protocol value walk a command cycle
        obj, m = make(cls_name), Model()
        for p in range(191 * 1 + 5):
            m.step(sh, cls_name, obj, False, "product")
            for c in range(64):
                m.step(sh, cls_name, obj, True, "product")
                states.add((m.last[False], m.last[True]))
        sh.counters[f"states_visited:{cls_name}"] = len(states)
        # pattern 2: only one kind for > 2 cycles (the other never asked)
        for kind in (False, True):
            obj, m = make(cls_name), Model()
            for _ in range(3 * 191 + 7):
                m.step(sh, cls_name, obj, kind, "single-kind")
        # pattern 3: seeded random interleavings, two objects interleaved (independence)
        r = rng("C16a", seed, cls_name)
        objs = [(make(cls_name), Model()) for _ in range(3)]
        for _ in range(30000):
            o, mm = r.choice(objs)
            mm.step(sh, cls_name, o, r.random() < r.choice([0.1, 0.5, 0.9]), "random-3-objects")
        sh.nontrivial(f"single:{cls_name}")
    sh.sample({"part": "a", "patterns": ["torus", "product", "single-kind", "random-3-objects"]})


def shard_threads(sh: Shard, seed, runs, nthreads, calls):
    from geckolib.driver import GeckoUdpSocket
    from vlib.inject import YieldInjector

    code = GeckoUdpSocket.get_and_increment_sequence_counter.__code__
    r = rng("C16b", seed)
    total_events = 0
    for run_i in range(runs):
        sock = GeckoUdpSocket()
        # start somewhere in the cycle (single-threaded warm-up)
        wp, wc = r.randrange(0, 400), r.randrange(0, 140)
        lastp = lastc = None
        for _ in range(wp):
            lastp = sock.get_and_increment_sequence_counter(False)
        for _ in range(wc):
            lastc = sock.get_and_increment_sequence_counter(True)
        out = [[] for _ in range(nthreads)]
        # every other run the socket's OWN worker thread asks too (as it does for every acknowledgement
        # and every step of the handshake): from a receive handler, fed by a scripted OS socket
        feed = None
        if run_i % 2 == 1:
            import socket as _socket
            import time as _time

            from geckolib.driver import GeckoUdpProtocolHandler

            wplan = [r.random() < 0.3 for _ in range(400)]

            class Feed:
                def __init__(self):
                    self.stop = False
                    self.n = 0

                def settimeout(self, t):
                    pass

                def setsockopt(self, *a):
                    pass

                def bind(self, *a):
                    pass

                def sendto(self, data, addr):
                    return len(data)

                def close(self):
                    self.stop = True

                def recvfrom(self, n):
                    if self.stop or self.n >= len(wplan):
                        _time.sleep(0.005)
                        raise _socket.timeout()
                    self.n += 1
                    return b"TICK", ("127.0.0.1", 1)

            class Tick(GeckoUdpProtocolHandler):
                def can_handle(self, received_bytes, sender):
                    return received_bytes == b"TICK"

                def handle(self, received_bytes, sender):
                    k = wplan[len(out[-1]) % len(wplan)]
                    out[-1].append((k, sock.get_and_increment_sequence_counter(k)))

            feed = Feed()
            sock2 = GeckoUdpSocket(socket=feed) if "socket" in GeckoUdpSocket.__init__.__code__.co_varnames else None
            if sock2 is not None:
                # same warm-up position on the socket that owns a worker
                for _ in range(wp):
                    sock2.get_and_increment_sequence_counter(False)
                for _ in range(wc):
                    sock2.get_and_increment_sequence_counter(True)
                sock = sock2
                out.append([])  # the worker's results
                sock.add_receive_handler(Tick())
                sh.count("runs_with_the_sockets_own_worker_thread_asking")
            else:
                feed = None
        pcmd = r.choice([0.0, 0.2, 0.5, 1.0])
        plan = [[r.random() < pcmd for _ in range(calls)] for _ in range(nthreads)]
        start = threading.Barrier(nthreads)

        def body(i):
            start.wait()
            f = sock.get_and_increment_sequence_counter
            o = out[i]
            for k in plan[i]:
                o.append((k, f(k)))

        with YieldInjector([code], prob=0.3, seed=seed * 100 + run_i) as inj:
            ts = [threading.Thread(target=body, args=(i,)) for i in range(nthreads)]
            if feed is not None:
                sock.open()  # starts the worker thread on the scripted socket
            for t in ts:
                t.start()
            for t in ts:
                t.join(120)
            alive = [t for t in ts if t.is_alive()]
            if feed is not None:
                feed.stop = True
                try:
                    sock.close()
                except Exception:
                    pass
                sh.count("numbers_taken_by_worker_threads", len(out[-1]))
        total_events += inj.events
        if alive:
            sh.inconc("threads did not finish within the watchdog")
            return
        sh.evaluations += 1
        for kind, last in ((False, lastp), (True, lastc)):
            got = sorted(v for o in out for (k, v) in o if k == kind)
            exp, cur = [], last
            for _ in range(len(got)):
                cur = succ(kind, cur)
                exp.append(cur)
            if got != sorted(exp):
                from collections import Counter

                cg, ce = Counter(got), Counter(exp)
                dup = sorted((cg - ce).elements())[:10]
                missing = sorted((ce - cg).elements())[:10]
                sh.violation(
                    f"C16:threads:{'command' if kind else 'protocol'}",
                    f"{nthreads} threads x {calls} calls: handed-out {'command' if kind else 'protocol'} numbers are not the next {len(got)} of the cycle (extra {dup}, missing {missing})",
                    {"threads": nthreads, "calls": calls, "extra": dup, "missing": missing, "start_after": last, "inject_seed": seed * 100 + run_i},
                )
        sh.nontrivial(f"threads:{seed}:{run_i}:{nthreads}:{pcmd}")
    sh.counters["line_events_injected"] = sh.counters.get("line_events_injected", 0) + total_events
    sh.sample({"part": "b", "threads": nthreads, "calls_per_thread": calls, "runs": runs, "line_events": total_events})


def main(tier, seed):
    run = Run("C16", tier, seed, "exploration")
    run.absorb(run_shards("checks.c16", "shard_single", [{"seed": seed}], timeout=900))
    if tier == "quick":
        jobs = [{"seed": seed * 50 + i, "runs": 3, "nthreads": 8 + 2 * (i % 4), "calls": 600} for i in range(8)]
    else:
        jobs = [{"seed": seed * 50 + i, "runs": 12, "nthreads": 8 + (i % 9), "calls": 3000} for i in range(NCPU)]
    run.absorb(run_shards("checks.c16", "shard_threads", jobs, timeout=2400, workers=8))
    run.need(run.counters.get("runs_with_the_sockets_own_worker_thread_asking", 0) >= 4 and run.counters.get("numbers_taken_by_worker_threads", 0) >= 200, "the socket's own worker thread hardly took part in the concurrent allocation")
    try:
        from checks import c16_wire

        c16_wire.add(run, tier, seed)
    except ImportError:
        run.extra["wire_part"] = "not built yet"
    for cls_name in ("GeckoAsyncUdpProtocol", "GeckoUdpSocket"):
        n = run.counters.get(f"states_visited:{cls_name}", 0)
        run.need(n >= 191 * 64, f"{cls_name}: only {n} of {191*64} (protocol, command) states visited")
    run.need(run.counters.get("line_events_injected", 0) > 10000, "yield injection saw too few line events (monitor not reached)")
    run.extra["reachable_states_per_class"] = 191 * 64
    return run.finish(
        rule="(a) every reachable (protocol counter, command counter) state pair of both implementations is visited (191 x 64 per class, counted) plus single-kind and random interleavings over three objects; (b) unique-value histories from 8-16 real threads with line-level yield injection in the counter function; (c) sequence byte of every sequence-bearing datagram sent by both clients; distinct = classes walked + threaded runs + wire scenarios",
        assumptions=["two cycle models 1..191 and 192..255 written from the statement", "yield injection only perturbs schedules, it never changes values"],
        exhaustive=True,
    )


def replay(path):
    from vlib.common import replay_args

    return main(*replay_args(path))
