"""C02 - pack-table items: write-then-read returns the value, no other bit changes.

Monitor: the (pos, length, value) tuple each write hands to the structure's write
delegate is captured (blocking path on both structure classes, awaitable path on the
async class), applied to a copy of the block the way the device would, and judged
by an independent reference decoder built from the table declarations.
"""
from __future__ import annotations

from vlib import tables
from vlib.common import NCPU, Run, Shard, describe_exc, rng, run_shards

ALLOWED = {}
STATE = {}


def drive(coro):
    """Run a coroutine that must not suspend (our delegate records and returns)."""
    try:
        coro.send(None)
    except StopIteration as e:
        return e.value
    coro.close()
    raise RuntimeError("awaitable write path suspended unexpectedly")


class Rig:
    """One table pair loaded on both structure classes with capturing delegates."""

    def __init__(self, plat, cfgv, logv):
        from geckolib.driver import GeckoAsyncStructure, GeckoStructure

        tables.install_decl_capture()
        self.cap = []
        self.sync = GeckoStructure(lambda p, l, v: self.cap.append(("S", p, l, v)))

        async def aset(p, l, v):
            self.cap.append(("A", p, l, v))

        self.asyn = GeckoAsyncStructure(lambda p, l, v: self.cap.append(("S", p, l, v)), aset)
        tables.load_struct(self.sync, plat, cfgv, logv)
        tables.load_struct(self.asyn, plat, cfgv, logv)

    def set_block(self, block):
        self.sync.set_status_block(block)
        self.asyn.set_status_block(block)

    def write(self, path, tag, value):
        """Returns (captured tuples, exception or None)."""
        self.cap.clear()
        try:
            if path == "sync/GeckoStructure":
                self.sync.accessors[tag].value = value
            elif path == "sync/GeckoAsyncStructure":
                self.asyn.accessors[tag].value = value
            else:
                drive(self.asyn.accessors[tag].async_set_value(value))
        except Exception as e:  # noqa
            return list(self.cap), e
        return list(self.cap), None


PATHS = ("sync/GeckoStructure", "sync/GeckoAsyncStructure", "async/GeckoAsyncStructure")


def domain(ref: tables.RefItem):
    """(value to write, expected value on read-back)."""
    if ref.kind == "Enum":
        seen, out = set(), []
        for lab in ref.labels:
            if lab not in seen:
                seen.add(lab)
                out.append((lab, lab))
        return out
    if ref.kind == "Bool":
        return [(True, True), (False, False), ("true", True), ("True", True), ("false", False), ("False", False)]
    if ref.kind == "Byte":
        # string forms: whatever int() reads as that decimal number (padding, sign, blanks)
        return [(0, 0), (1, 1), (127, 127), (128, 128), (255, 255), ("0", 0), ("200", 200), ("007", 7), (" 42 ", 42), ("+9", 9)]
    if ref.kind == "Word":
        return [(0, 0), (1, 1), (255, 255), (256, 256), (65535, 65535), ("1234", 1234), ("0726", 726), ("00010", 10), (" 300", 300)]
    if ref.kind == "Time":
        return [("00:00", "00:00"), ("23:59", "23:59"), ("255:255", "255:255"), ("01:02", "01:02"), ("7:5", "07:05")]
    return []


INVALID = {"Enum": ["NoSuchLabel-\u00e9", 3.5], "Byte": ["abc", "", None], "Word": ["x1", "12.5.1", None], "Time": ["ab:cd", "1200", 7], "Bool": []}


def poison(sh: Shard, rig, ref):
    """Writes the item must reject (or at least cannot satisfy) on the long-lived accessor objects,
    before the judged ones: whatever a rejected write does, it must not change what later valid
    writes on the same accessor do.  Outcomes are only recorded."""
    if ref.rw is None:
        return
    for bad in INVALID.get(ref.kind, []):
        for path in PATHS:
            cap, exc = rig.write(path, ref.tag, bad)
            sh.count("rejected_writes_attempted")
            sh.see("rejected_write_outcomes", f"{ref.kind}:{type(bad).__name__}:{type(exc).__name__ if exc else 'no-exception'}:{len(cap)}-emitted")


def revoke(sh: Shard, stem, rig, ref, r, keyp):
    """Write permission withdrawn through the public setter (and given back): while it is withdrawn
    the item refuses like one published read-only."""
    if ref.rw is None or ref.kind == "Temp":
        return
    dom = domain(ref)
    if not dom:
        return
    value = dom[r.randrange(len(dom))][0]
    accs = [rig.sync.accessors[ref.tag], rig.asyn.accessors[ref.tag]]
    for a in accs:
        a.set_read_write(None)
    try:
        for path in PATHS:
            cap, exc = rig.write(path, ref.tag, value)
            sh.count("writes_after_permission_withdrawn")
            if exc is None or cap:
                sh.violation(f"{keyp}:not-refused-after-revocation", f"{stem}/{ref.tag}: write via {path} after set_read_write(None) was not refused (emitted {cap})", {"module": stem, "item": ref.tag, "path": path, "value": value})
    finally:
        for a in accs:
            a.set_read_write(ref.rw)


def priors(ref, r, exhaustive=False):
    full = (1 << (8 * ref.width)) - 1
    if exhaustive:
        return range(full + 1)
    out = [0, full, r.randrange(full + 1), r.randrange(full + 1)]
    if ref.bitpos is not None:
        out += [0xAAAA & full, 0x5555 & full, full & ~ref.field_mask, ref.field_mask]
    return out


def judge(sh: Shard, stem, ref, rig, block, value, expect, neighbours, keyp):
    """One (item, prior block, value): all three write paths + oracle."""
    tuples = {}
    for path in PATHS:
        cap, exc = rig.write(path, ref.tag, value)
        sh.count("writes")
        if ref.rw is None:
            if exc is None or cap:
                sh.violation(f"{keyp}:not-refused", f"write to read-only item {stem}/{ref.tag} via {path} was not refused (emitted {cap})", {"module": stem, "item": ref.tag, "path": path, "value": value})
            else:
                sh.count("refusals_observed")
            continue
        if exc is not None:
            d = describe_exc(exc)
            sh.violation(f"{keyp}:raise", f"write of {value!r} to {stem}/{ref.tag} via {path} raised {d['type']}: {d['msg']}", {"module": stem, "item": ref.tag, "path": path, "value": value, "exc": d})
            continue
        if len(cap) != 1:
            sh.violation(f"{keyp}:emit-count", f"{len(cap)} device writes emitted for one write of {stem}/{ref.tag} via {path}", {"cap": cap, "value": value})
            continue
        # the same request again, at once, nothing in between (the spa acknowledged but did not act, the
        # user presses again): it is a write like any other - the same device write goes out again
        STATE["n"] = STATE.get("n", 0) + 1
        if STATE["n"] % 4 == 0:
            cap2, exc2 = rig.write(path, ref.tag, value)
            sh.count("writes_repeated_at_once")
            if exc2 is not None or cap2 != cap:
                sh.violation(f"{keyp}:repeat-differs", f"{stem}/{ref.tag}: the same write of {value!r} repeated at once via {path} gives {('raised ' + type(exc2).__name__) if exc2 else cap2!r}, the first time {cap!r}", {"module": stem, "item": ref.tag, "path": path, "value": value})
        kind, pos, length, val = cap[0]
        if kind != ("A" if path.startswith("async") else "S"):
            sh.violation(f"{keyp}:wrong-delegate", f"{path} used the other delegate", {"cap": cap})
        tuples[path] = (pos, length, val)
        old_word = int.from_bytes(block[ref.pos : ref.pos + ref.width], "big")
        w = {"module": stem, "item": ref.tag, "shape": ref.shape(), "path": path, "value": value, "prior_word": old_word, "emitted": [pos, length, val]}
        if pos != ref.pos or length != ref.width or not isinstance(val, int) or not (0 <= val < (1 << (8 * ref.width))):
            sh.violation(f"{keyp}:geometry", f"device write {(pos, length, val)} does not address the {ref.width}-byte field of {stem}/{ref.tag} at {ref.pos}", w)
            continue
        new = tables.apply_write(block, pos, length, val)
        got = ref.decode(new)
        if got != expect:
            sh.violation(f"{keyp}:roundtrip", f"{stem}/{ref.tag}: wrote {value!r}, reference reads back {got!r} (expected {expect!r})", w)
        if (val ^ old_word) & ~ref.field_mask:
            sh.violation(f"{keyp}:foreign-bits", f"{stem}/{ref.tag}: write of {value!r} changed bits outside the item's field (word {old_word:#x} -> {val:#x}, field mask {ref.field_mask:#x})", w)
        # the library's own reader, and the items sharing bytes with this one
        rig.set_block(new)
        try:
            lib = rig.asyn.accessors[ref.tag].value
            if lib != expect or type(lib) is not type(expect):
                sh.violation(f"{keyp}:lib-readback", f"{stem}/{ref.tag}: wrote {value!r}, item reads back {lib!r} (expected {expect!r})", w)
            for ntag, before in neighbours:
                after = rig.asyn.accessors[ntag].value
                sh.count("neighbour_reads")
                if after != before:
                    sh.violation(f"{keyp}:neighbour-changed", f"write to {stem}/{ref.tag} changed disjoint item {ntag} from {before!r} to {after!r}", dict(w, neighbour=ntag))
        finally:
            rig.set_block(block)
    if len(set(tuples.values())) > 1:
        sh.violation(f"{keyp}:paths-differ", f"{stem}/{ref.tag}: blocking and awaitable paths emit different device writes {tuples}", {"module": stem, "item": ref.tag, "value": value, "tuples": {k: list(v) for k, v in tuples.items()}})


def overlap_witness(sh, stem, rig, block, ref, other, shared, r):
    """Two items whose fields partially overlap: drive a write to `ref` and watch `other`."""
    a, b = sorted((ref.tag, other.tag))
    key = f"C02:overlap:{stem}/{a}~{b}"
    sh.count("partial_overlaps_seen")
    if ref.rw is None:
        return
    for value, expect in domain(ref):
        for prior in (0, (1 << (8 * ref.width)) - 1, r.randrange(1 << (8 * ref.width))):
            blk = block[: ref.pos] + prior.to_bytes(ref.width, "big") + block[ref.pos + ref.width :]
            rig.set_block(blk)
            try:
                before = rig.asyn.accessors[other.tag].value
                cap, exc = rig.write("async/GeckoAsyncStructure", ref.tag, value)
                if exc is not None or len(cap) != 1:
                    continue
                _, pos, length, val = cap[0]
                rig.set_block(tables.apply_write(blk, pos, length, val))
                after = rig.asyn.accessors[other.tag].value
            except Exception:  # noqa
                continue
            finally:
                rig.set_block(block)
            sh.evaluations += 1
            if after != before:
                sh.violation(key, f"{stem}: items {ref.tag} and {other.tag} share bits without one containing the other; writing {ref.tag}={value!r} changed {other.tag} from {before!r} to {after!r}", {"module": stem, "written": ref.tag, "other": other.tag, "value": value, "prior_word": prior, "shapes": [ref.shape(), other.shape()]})
                return


def temp_cases(sh, stem, ref, rig, block, r, keyp):
    """Temperature items: representable readings write back exactly (both units)."""
    if "TempUnits" not in rig.asyn.accessors:
        sh.count("temp_items_without_units_skipped")
        return
    uref = tables.ref_of(rig.asyn.accessors["TempUnits"])
    for units in ("C", "F"):
        ub = bytearray(block)
        word = int.from_bytes(ub[uref.pos : uref.pos + uref.width], "big")
        word = (word & ~uref.field_mask) | (uref.encode(units) << uref.shift)
        ub[uref.pos : uref.pos + uref.width] = word.to_bytes(uref.width, "big")
        for raw in [0, 1, 17, 18, 360, 500, 719, 720, 65535, r.randrange(65536), r.randrange(1200)]:
            b = bytes(ub[: ref.pos]) + raw.to_bytes(2, "big") + bytes(ub[ref.pos + 2 :])
            if (uref.pos < ref.pos + 2) and (ref.pos < uref.pos + uref.width):
                continue
            rig.set_block(b)
            sh.evaluations += 1
            reading = rig.asyn.accessors[ref.tag].value
            exp = raw / 18.0 if units == "C" else (raw + 320) / 10.0
            if reading != exp:
                sh.violation(f"{keyp}:temp-read", f"{stem}/{ref.tag}: raw {raw} in {units} reads {reading!r}, expected {exp!r}", {"raw": raw, "units": units})
            # another prior word so that the write is visible
            b2 = bytes(ub[: ref.pos]) + ((raw ^ 0x5A5A) & 0xFFFF).to_bytes(2, "big") + bytes(ub[ref.pos + 2 :])
            rig.set_block(b2)
            for path in PATHS:
                cap, exc = rig.write(path, ref.tag, reading)
                sh.count("writes")
                if ref.rw is None:
                    if exc is None or cap:
                        sh.violation(f"{keyp}:not-refused", f"write to read-only {stem}/{ref.tag} not refused", {"path": path})
                    else:
                        sh.count("refusals_observed")
                    continue
                if exc is not None or len(cap) != 1:
                    sh.violation(f"{keyp}:raise", f"temperature write {reading} to {stem}/{ref.tag} via {path}: exc={exc!r} cap={cap}", {"raw": raw, "units": units})
                    continue
                _, pos, length, val = cap[0]
                if (pos, length, val) != (ref.pos, 2, raw):
                    sh.violation(f"{keyp}:temp-roundtrip", f"{stem}/{ref.tag}: reading {reading} ({units}) of raw {raw} writes back {(pos, length, val)}", {"raw": raw, "units": units, "path": path})
        # any other decimal a user may type (number and text forms): whatever word it lands on, the
        # blocking and the awaitable paths must emit the same device write
        if ref.rw is not None and not ((uref.pos < ref.pos + 2) and (ref.pos < uref.pos + uref.width)):
            rig.set_block(bytes(ub))
            lo, hi = (0.0, 60.0) if units == "C" else (32.0, 140.0)
            for v in [37.7, 38.05, 99.95, "37.7", "101.3", round(r.uniform(lo, hi), 1), round(r.uniform(lo, hi), 2), r.uniform(lo, hi), str(round(r.uniform(lo, hi), 1))]:
                got = {}
                for path in PATHS:
                    cap, exc = rig.write(path, ref.tag, v)
                    sh.count("writes")
                    got[path] = ("raised " + type(exc).__name__) if exc is not None else tuple(tuple(c[1:]) for c in cap)
                sh.evaluations += 1
                sh.count("temperature_decimals_through_all_paths")
                if len(set(got.values())) > 1:
                    sh.violation(f"{keyp}:paths-differ", f"{stem}/{ref.tag}: temperature {v!r} ({units}): blocking and awaitable paths emit different device writes {got}", {"module": stem, "item": ref.tag, "value": v, "units": units, "emitted": {k: repr(x) for k, x in got.items()}})
    # the unit field holding a value beyond its two labels (whole-byte enums: 2..255): whatever unit the
    # library takes that for, all three write paths take it for the same one
    if ref.rw is not None and uref.kind == "Enum" and uref.mask >= 3 and not ((uref.pos < ref.pos + 2) and (ref.pos < uref.pos + uref.width)):
        for uraw in sorted({2, uref.mask, r.randrange(2, uref.mask + 1)}):
            ub = bytearray(block)
            word = int.from_bytes(ub[uref.pos : uref.pos + uref.width], "big")
            word = (word & ~uref.field_mask) | ((uraw & uref.mask) << uref.shift)
            ub[uref.pos : uref.pos + uref.width] = word.to_bytes(uref.width, "big")
            rig.set_block(bytes(ub))
            for v in [38, 38.5, 100.0, "99.5", round(r.uniform(10, 110), 1)]:
                got = {}
                for path in PATHS:
                    cap, exc = rig.write(path, ref.tag, v)
                    sh.count("writes")
                    got[path] = ("raised " + type(exc).__name__) if exc is not None else tuple(tuple(c[1:]) for c in cap)
                sh.evaluations += 1
                sh.count("temperature_writes_under_an_unlabelled_unit_value")
                if len(set(got.values())) > 1:
                    sh.violation(f"{keyp}:paths-differ", f"{stem}/{ref.tag}: temperature {v!r} with the unit field at {uraw} (beyond its labels): blocking and awaitable paths emit different device writes {got}", {"module": stem, "item": ref.tag, "value": v, "unit_raw": uraw, "emitted": {k: repr(x) for k, x in got.items()}})
    rig.set_block(block)


def shard_modules(sh: Shard, stems, seed, tier):
    packs, cfgs, logs = tables.module_stems()
    for stem in stems:
        plat, kind, ver = tables.split_stem(stem)
        partner_kind = "log" if kind == "cfg" else "cfg"
        partners = [s for s in (logs if kind == "cfg" else cfgs) if tables.split_stem(s)[0] == plat]
        pv = tables.split_stem(partners[0])[2]
        cfgv, logv = (ver, pv) if kind == "cfg" else (pv, ver)
        r = rng("C02", seed, stem)
        try:
            rig = Rig(plat, cfgv, logv)
            own = tables.import_stem(stem)
            own_tags = list((own.GeckoConfigStruct if kind == "cfg" else own.GeckoLogStruct)(rig.asyn).accessors)
        except Exception as e:
            sh.violation(f"C02:module:{stem}:load", f"table {stem} cannot be loaded: {e!r}", describe_exc(e))
            continue
        block = bytes(r.randrange(256) for _ in range(1024))
        rig.set_block(block)
        refs = {t: tables.ref_of(a) for t, a in rig.asyn.accessors.items()}
        sh.count("modules")
        for tag in own_tags:
            ref = refs[tag]
            keyp = f"C02:item:{stem}/{tag}"
            sh.count("items")
            if not ref.inside_block():
                sh.count("items_outside_block_skipped")
                continue
            sh.see("shapes", ref.shape())
            if ref.kind == "Temp":
                temp_cases(sh, stem, ref, rig, block, r, keyp)
                sh.nontrivial(f"{stem}/{tag}")
                continue
            # items sharing bytes with this one but with disjoint fields
            lo, hi = ref.pos, ref.pos + ref.width
            share = []
            for t2, r2 in refs.items():
                if t2 == tag or not r2.inside_block() or r2.kind == "Temp":
                    continue
                if r2.pos < hi and lo < r2.pos + r2.width:
                    # disjoint iff the bit sets inside the union do not intersect
                    base = min(lo, r2.pos)
                    span = max(hi, r2.pos + r2.width) - base
                    m1 = ref.field_mask << (8 * (base + span - hi))
                    m2 = r2.field_mask << (8 * (base + span - (r2.pos + r2.width)))
                    if m1 & m2 == 0:
                        share.append(t2)
                    elif m1 != m2 and (m1 & m2) not in (m1, m2):
                        # neither the same field nor one nested in the other: two items that own
                        # some bits each and share others - a write to one must change the other
                        overlap_witness(sh, stem, rig, block, ref, r2, m1 & m2, r)
            share = share[:6]
            poison(sh, rig, ref)
            revoke(sh, stem, rig, ref, r, keyp)
            for value, expect in domain(ref):
                for prior in priors(ref, r):
                    b = block[: ref.pos] + prior.to_bytes(ref.width, "big") + block[ref.pos + ref.width :]
                    rig.set_block(b)
                    neighbours = []
                    for t2 in share:
                        try:
                            neighbours.append((t2, rig.asyn.accessors[t2].value))
                        except Exception:
                            pass
                    sh.evaluations += 1
                    judge(sh, stem, ref, rig, b, value, expect, neighbours, keyp)
            sh.nontrivial(f"{stem}/{tag}")
        if len(sh.samples) < 2 and own_tags:
            t = own_tags[len(own_tags) // 2]
            sh.sample({"module": stem, "item": t, "shape": refs[t].shape(), "domain": [repr(v) for v, _ in domain(refs[t])][:8]})


def shard_shapes(sh: Shard, shapes, seed):
    """Thorough: per distinct shape, ALL prior contents of the field x all domain values."""
    for stem, plat, cfgv, logv, tag in shapes:
        rig = Rig(plat, cfgv, logv)
        r = rng("C02s", seed, stem, tag)
        block = bytes(r.randrange(256) for _ in range(1024))
        ref = tables.ref_of(rig.asyn.accessors[tag])
        keyp = f"C02:item:{stem}/{tag}"
        dom = domain(ref)
        if ref.width == 2 and len(dom) > 8:
            dom = dom[:4] + dom[-4:]
        for value, expect in dom:
            for prior in priors(ref, r, exhaustive=True):
                b = block[: ref.pos] + prior.to_bytes(ref.width, "big") + block[ref.pos + ref.width :]
                rig.set_block(b)
                sh.evaluations += 1
                judge(sh, stem, ref, rig, b, value, expect, [], keyp)
        sh.see("shapes_exhausted", ref.shape())
        sh.nontrivial(f"shape:{ref.shape()}")


def main(tier, seed):
    run = Run("C02", tier, seed, "exploration")
    packs, cfgs, logs = tables.module_stems()
    stems = cfgs + logs
    n = NCPU
    groups = [stems[i::n] for i in range(n)]
    res = run_shards("checks.c02", "shard_modules", [{"stems": g, "seed": seed, "tier": tier} for g in groups if g], timeout=1500)
    run.absorb(res)
    if tier == "thorough":
        # pick one representative writable item per distinct shape
        tables.install_decl_capture()
        from geckolib.driver import GeckoAsyncStructure

        reps = {}
        st = GeckoAsyncStructure(None, None)
        for stem in stems:
            plat, kind, ver = tables.split_stem(stem)
            mod = tables.import_stem(stem)
            t = (mod.GeckoConfigStruct if kind == "cfg" else mod.GeckoLogStruct)(st)
            partners = [s for s in (logs if kind == "cfg" else cfgs) if tables.split_stem(s)[0] == plat]
            pv = tables.split_stem(partners[0])[2]
            cfgv, logv = (ver, pv) if kind == "cfg" else (pv, ver)
            for tag, a in t.accessors.items():
                ref = tables.ref_of(a)
                if ref.rw is None or ref.kind == "Temp" or not ref.inside_block():
                    continue
                if (stem, tag) in (("mas-ibc-32k-log-1", "UserDryingDelay"), ("mas-ibc-32k-log-1", "PurgeDelayTimer")):
                    continue  # judged in the per-item pass (known finding); not a shape representative
                reps.setdefault(ref.shape(), (stem, plat, cfgv, logv, tag))
        lst = sorted(reps.values())
        res = run_shards("checks.c02", "shard_shapes", [{"shapes": lst[i::n], "seed": seed} for i in range(n) if lst[i::n]], timeout=3000)
        run.absorb(res)
        run.extra["shapes_exhaustively_covered"] = len(reps)
    run.need(run.counters.get("items", 0) >= 20000, "fewer than 20000 items driven")
    run.need(run.counters.get("refusals_observed", 0) > 0, "no read-only refusal observed")
    run.need(run.counters.get("writes", 0) > 100000, "too few writes observed")
    run.need(run.counters.get("writes_repeated_at_once", 0) > 10000 and run.counters.get("writes_after_permission_withdrawn", 0) > 10000, "repeated writes / writes after a withdrawn permission hardly driven")
    run.need(run.counters.get("rejected_writes_attempted", 0) > 1000 and run.counters.get("temperature_decimals_through_all_paths", 0) > 1000, "rejected writes / arbitrary temperature decimals never driven")
    return run.finish(
        rule="every item of every cfg/log module (loaded with a partner table of its platform), every value of its domain (all distinct labels / booleans and their string forms / byte, word, time corner values incl. padded, signed and blank-wrapped decimal strings / temperature readings in both units; arbitrary temperature decimals for the identical-writes clause; each writable item first receives writes it must reject, on the same long-lived accessor objects) x a set of prior field contents (0, all-ones, random, alternating, complement of the field; thorough: ALL prior contents for one representative item per distinct shape) x three write paths; one evaluation = one (item, prior, value) case; distinct = distinct (module,item) pairs driven (+ shapes exhausted)",
        assumptions=["reference decoder derives geometry from the table declarations (tag,pos,type,bitpos,items,size,maxitems), field width for N max-items = ceil(log2 N) bits", "device applies a set-value command as a big-endian 1/2-byte store at pos", "items outside the 1024-byte block are C18's subject and skipped here"],
        exhaustive=False,
    )


def replay(path):
    from vlib.common import replay_args

    return main(*replay_args(path))
