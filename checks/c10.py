"""C10 - reset or exit at any point leaks no endpoint/task and has no late effects.

Crash-point enumeration: one scenario shape (locate -> handshake -> steady state ->
outage/error states) is re-run once per instant of a grid with a reset - or the
context exit - injected there.  Monitors: creation/close of every transport handed out
by the harness loop (with the creating task), library tasks by key prefix, and
observers registered by the client on the facade, its devices, the spa and the
manager's sensors (any call after the teardown returned is a late effect).
Thorough tier: the same connect/reset cycle on a real asyncio loop with real UDP
sockets on 127.0.0.1, counting descriptors in /proc/self/fd.
"""
from __future__ import annotations

import asyncio

from vlib.common import NCPU, Run, Shard, describe_exc, rng, run_shards

LIB_PREFIXES = ("SPA", "FACADE", "LOC", "SPAMAN", "ASYNC")


def lib_tasks(loop, prefixes=LIB_PREFIXES):
    return [t for t in asyncio.all_tasks(loop) if not t.done() and t.get_name().split(":")[0] in prefixes]


class Watchers:
    """Client-side observers registered on everything the client can see at READY."""

    def __init__(self, mw):
        self.mw = mw
        self.calls = []  # (t, generation, what)
        self.generation = 0
        self.retired_at = {}  # generation -> seq/time after which a call is a late effect

    def hook(self, man, event):
        if event != "CLIENT_FACADE_IS_READY":
            return
        self.generation += 1
        g = self.generation
        f = man._facade

        def mk(what):
            def cb(*a):
                self.calls.append((self.mw.w.now, g, what))

            return cb

        f.watch(mk("facade"))
        for d in f.all_automation_devices:
            if d is not None:
                d.watch(mk("device:" + str(getattr(d, "key", "?"))))
        man._spa.watch(mk("spa"))
        for name in ("_ping_sensor", "_status_sensor", "_radio_sensor", "_channel_sensor"):
            sn = getattr(man, name, None)
            if sn is not None:
                sn.watch(mk("sensor:" + name))

    def retire_all(self):
        for g in range(1, self.generation + 1):
            self.retired_at.setdefault(g, self.mw.w.now)

    def late_calls(self):
        return [(t, g, what) for (t, g, what) in self.calls if g in self.retired_at and t > self.retired_at[g] and not what.startswith("sensor:_status")]


def late_datagrams(mw, transports):
    """Feed late traffic straight to the abandoned protocol objects."""
    from vlib.rig import CLIENT_ID, SPA_ID

    fr = lambda c: b"<PACKT><SRCCN>" + SPA_ID + b"</SRCCN><DESCN>" + CLIENT_ID + b"</DESCN><DATAS>" + c + b"</DATAS></PACKT>"  # noqa
    n = 0
    for tr in transports:
        for payload in (b"APING\x00", b"STATP\x01\x01\x2c\xab\xcd", b"RFERR", b"WCERR", b"SVERS\x00\x01\x02\x03\x00\x04\x05\x06"):
            try:
                tr.protocol.datagram_received(fr(payload), mw.sim.addr)
                n += 1
            except Exception as e:
                return n, e
    return n, None


def scenario(sh: Shard, seed, idx, action, t_crash, shape, regime, suspend, case=None):
    case = case or {}
    from vlib.aworld import ScenarioHang, Watchdog
    from vlib.man import ManWorld, Phase, make_manager_class

    r = rng("C10", seed, idx)
    mw = ManWorld(r, regime, suspend=suspend, snapshot=r.choice(["default.snapshot", "inYT-Pump1Hi-2020-12-13 11_19_35.snapshot"]), max_iter=12_000_000, wall_cap=600)
    wat = Watchers(mw)
    mw.on_event = wat.hook
    out = {"problems": []}
    label = f"{action}@{t_crash}:{shape}:{regime}:{suspend}"
    try:
        Man = make_manager_class()
        loop = mw.w.loop

        async def drive_shape(t_end):
            """network script of the shape, until virtual second t_end of the scenario"""
            t0 = mw.w.now
            if shape in ("socket-error", "at-endpoint-creation"):
                plan = []
            elif shape == "outage":
                plan = [(8.0, Phase("blackout", 0)), (300.0, Phase("healthy", 0))]
            elif shape == "rferr":
                plan = [(8.0, Phase("rferr", 0)), (120.0, Phase("healthy", 0))]
            else:
                plan = []
            for at, ph in plan:
                if at >= t_end:
                    break
                await asyncio.sleep(max(0, t0 + at - mw.w.now))
                mw.set_phase(ph)
            await asyncio.sleep(max(0, t0 + t_end - mw.w.now))

        async def main():
            man = Man(mw, "02ac6d28-42d0-41e3-ad22-274d0aa491da", **mw.kw)
            await man.__aenter__()
            mw.man = man
            mw.w.set_regime(regime)
            try:
                if shape == "at-endpoint-creation":
                    # the action lands exactly while the k-th endpoint is being opened
                    hit = {"n": 0, "fut": loop.create_future()}
                    k = int(t_crash)

                    def hook(tr):
                        if not tr.kw.get("allow_broadcast"):
                            hit["n"] += 1
                            if hit["n"] == k and not hit["fut"].done():
                                hit["fut"].set_result(True)

                    loop.creation_hook = hook
                    if k == 2:
                        # the second connection of this manager: connect, reset, wait for the re-connect
                        await mw.wait_state("CONNECTED", 60)
                        await man.async_reset()
                    try:
                        await asyncio.wait_for(hit["fut"], 120)
                    except asyncio.TimeoutError:
                        out["harness_problem"] = "connection endpoint never created"
                    loop.creation_hook = None
                elif shape == "at-step":
                    # the action lands right after the k-th callback scheduled on the event loop since
                    # the manager was entered (every task step is one such callback): crash points
                    # between two steps of different tasks at the same virtual instant
                    fut = loop.create_future()
                    loop.step_target = loop.steps_scheduled + int(t_crash)
                    loop.step_hook = lambda: (not fut.done()) and fut.set_result(True)
                    try:
                        await asyncio.wait_for(fut, 120)
                        out["landed_at_step"] = True
                    except asyncio.TimeoutError:
                        out["harness_problem"] = "fewer callbacks were scheduled than the requested step index"
                elif shape == "in-reset-callback":
                    # the action lands while the library's own reset (a ping answered in an error state,
                    # made from the connection's ping-loop task) is suspended inside the client's
                    # RUNNING_SPA_DISCONNECTED handler
                    fut = loop.create_future()
                    prev = mw.on_event

                    def on_ev(man_, name):
                        prev(man_, name)
                        t_ = asyncio.current_task()
                        if name == "RUNNING_SPA_DISCONNECTED" and t_ is not None and t_.get_name() == "SPA:Ping loop" and not fut.done():
                            fut.set_result(True)

                    mw.on_event = on_ev
                    mw.suspend_events = {"RUNNING_SPA_DISCONNECTED"}
                    await mw.wait_state("CONNECTED", 60)
                    await asyncio.sleep(3.0)
                    mw.set_phase(Phase("blackout", 0))
                    await asyncio.sleep(300)
                    mw.set_phase(Phase("healthy", 0))
                    try:
                        await asyncio.wait_for(fut, 200)
                        await asyncio.sleep(t_crash)
                        out["landed_in_reset_callback"] = True
                    except asyncio.TimeoutError:
                        out["harness_problem"] = "the automatic reset never announced RUNNING_SPA_DISCONNECTED"
                    mw.on_event = prev
                elif shape == "command-in-flight":
                    # a command the client is awaiting (the spa has just gone silent) is still retrying
                    # when the action lands; whatever becomes of it, the client hears nothing more from
                    # the abandoned connection
                    await mw.wait_state("CONNECTED", 60)
                    await asyncio.sleep(2.0)
                    mw.set_phase(Phase("blackout", 0))
                    spa_old = man._spa
                    if case.get("sync_api"):
                        # the plain (non-awaitable) API: the library starts the task itself
                        before_ = set(asyncio.all_tasks())
                        spa_old.press(1)
                        made = [t_ for t_ in asyncio.all_tasks() if t_ not in before_]
                        cmd = made[0] if made else asyncio.ensure_future(asyncio.sleep(0))
                        out["sync_api_command"] = bool(made)
                    else:
                        cmd = asyncio.ensure_future(spa_old.async_press(1) if int(t_crash) % 2 else spa_old.async_set_watercare(2))
                    out["command_task"] = cmd.get_name()
                    await asyncio.sleep(1.0 + t_crash)
                    out["command_in_flight"] = not cmd.done()
                elif shape == "wcerr-follow-up":
                    # the spa reports a watercare error (a verb the simulator never sends); the client's
                    # handler task asks for the mode again - and the spa has gone silent, so that request
                    # is retrying when the action lands
                    from vlib.rig import SPA_ID

                    await mw.wait_state("CONNECTED", 60)
                    await asyncio.sleep(2.0)
                    spa_old = man._spa
                    tr_ = spa_old._transport
                    cid_ = spa_old.sendparms[3]
                    mw.set_phase(Phase("blackout", 0))
                    mw.w.net.inject(b"<PACKT><SRCCN>" + SPA_ID + b"</SRCCN><DESCN>" + cid_ + b"</DESCN><DATAS>WCERR</DATAS></PACKT>", mw.sim.addr, tr_)
                    await asyncio.sleep(1.0 + t_crash)
                    out["wcerr_follow_up_in_flight"] = any(d.dir == "c2s" and d.verb == "GETWC" and d.t > mw.w.now - 1.0 - t_crash - 0.01 for d in mw.w.net.dgrams)
                elif shape == "in-consumer-callback":
                    # the action lands while a consumer task of the connection is suspended inside the
                    # client's event handler (RF-error events, handler sleeping 0.3-3 s)
                    fut = loop.create_future()
                    prev = mw.on_event

                    def on_ev(man_, name):
                        prev(man_, name)
                        t_ = asyncio.current_task()
                        if name == "ERROR_RF_ERROR" and t_ is not None and t_.get_name() == "SPA:RFErr handler" and not fut.done():
                            fut.set_result(True)

                    mw.on_event = on_ev
                    mw.suspend_events = {"ERROR_RF_ERROR"}
                    await mw.wait_state("CONNECTED", 60)
                    mw.set_phase(Phase("rferr", 0))
                    try:
                        await asyncio.wait_for(fut, 200)
                        await asyncio.sleep(t_crash)
                        out["consumer_suspended_at_action"] = True
                    except asyncio.TimeoutError:
                        out["harness_problem"] = "no RF-error event was delivered"
                    mw.on_event = prev
                else:
                    await drive_shape(t_crash)
                if shape == "socket-error":
                    # an ICMP / send error reaches the protocol of every open connection first
                    for tr in list(loop.transports):
                        if not tr.closed and not tr.kw.get("allow_broadcast"):
                            tr.protocol.error_received(OSError(101, "Network is unreachable"))
                            out["errors_injected"] = out.get("errors_injected", 0) + 1
                out["state_at_crash"] = man._spa_state.name
                before_tr = list(loop.transports)
                before_tasks = lib_tasks(loop, ("SPA", "FACADE"))
                if action == "reset":
                    if case.get("via") == "clear-info":
                        # "forget this spa": the reset made through async_set_spa_info(None, None, None)
                        try:
                            await man.async_set_spa_info(None, None, None)
                        except Exception as e_:  # judged by what is left behind
                            out["reset_call_raised"] = repr(e_)
                        out["reset_via_clear_info"] = True
                    else:
                        await man.async_reset()
                    wat.retire_all()
                    for _ in range(3):
                        await asyncio.sleep(0)
                    conn = [t for t in before_tr if not t.kw.get("allow_broadcast")]
                    leaked = [t for t in conn if not t.closed]
                    if leaked:
                        out["problems"].append(("C10:reset:connection-endpoint-open", f"{len(leaked)} connection endpoint(s) of the abandoned connection still open after async_reset returned (created by {[t.owner for t in leaked]})"))
                    alive = [t.get_name() for t in before_tasks if not t.done()]
                    if alive:
                        out["problems"].append(("C10:reset:tasks-alive", f"tasks of the abandoned connection still running after async_reset returned: {alive}"))
                    n, e = late_datagrams(mw, [t for t in before_tr if not t.kw.get("allow_broadcast")])
                    if e is not None:
                        out["problems"].append(("C10:late-datagram-raise", f"late datagram on an abandoned endpoint raised {e!r}"))
                    out["late_fed"] = n
                    # discovery endpoints of a locate in progress may live until it ends
                    import geckolib.config as C

                    await asyncio.sleep(C.GeckoConfig.DISCOVERY_TIMEOUT_IN_SECONDS + 1.0)
                    loc_open = [t for t in before_tr if t.kw.get("allow_broadcast") and not t.closed]
                    if loc_open:
                        out["problems"].append(("C10:reset:discovery-endpoint-open", f"{len(loc_open)} discovery endpoint(s) opened before the reset still open {C.GeckoConfig.DISCOVERY_TIMEOUT_IN_SECONDS + 1}s later"))
                    if shape == "command-in-flight":
                        t_reset = mw.w.now
                        mw.set_phase(Phase("healthy", 0))
                        await asyncio.sleep(90)
                        late_ev = [(round(e["t"] - t_reset, 1), e["event"]) for e in mw.events if e["task"] == out.get("command_task") and e["t"] > t_reset]
                        if late_ev:
                            out["problems"].append(("C10:late-effect:abandoned-command", f"a command that was in flight when the connection was reset delivered events to the client afterwards: {late_ev[:3]}"))
                        if out.get("command_in_flight"):
                            out["counted_command_in_flight"] = True
                    await asyncio.sleep(20)
                    n_open = len([t for t in loop.transports if not t.closed])
                    out["open_after_settle"] = n_open
                    if n_open > 1:
                        out["problems"].append(("C10:reset:endpoints-accumulate", f"{n_open} endpoints open 30 s after a reset (at most one connection may be up)"))
                    # at most one connection's worth of tasks: the same task name alive twice means
                    # a task of the abandoned connection (possibly started after the reset returned,
                    # by the attempt the reset abandoned) is still running beside the new one
                    import collections

                    names = collections.Counter(t.get_name() for t in lib_tasks(loop, ("SPA", "FACADE")))
                    dup = sorted(n_ for n_, c_ in names.items() if c_ > 1)
                    if dup:
                        out["problems"].append(("C10:reset:tasks-accumulate", f"30 s after a reset these tasks run more than once (an abandoned connection's tasks beside the new one): {dup}"))
                else:
                    pass
            finally:
                # leaving the context must itself end: it waits for every task of the farm, so a task
                # that survives its cancellation makes it wait for ever
                ex = asyncio.ensure_future(man.__aexit__(None, None, None))
                await asyncio.wait({ex}, timeout=600)
                if not ex.done():
                    alive_ = [t.get_name() for t in lib_tasks(loop)]
                    out["problems"].append(("C10:exit:never-returns", f"the manager context had not been left 600 virtual seconds after __aexit__ was entered; library tasks still alive: {alive_}"))
                    out["exit_hung"] = True
                elif ex.exception() is not None:
                    raise ex.exception()
            if out.get("exit_hung"):
                return
            wat.retire_all()
            for _ in range(3):
                await asyncio.sleep(0)
            alive = [t.get_name() for t in lib_tasks(loop)]
            if alive:
                out["problems"].append(("C10:exit:tasks-alive", f"library tasks alive after the manager context was exited: {alive}"))
            still = [t for t in loop.transports if not t.closed]
            if still:
                kinds = sorted({"discovery" if t.kw.get("allow_broadcast") else "connection" for t in still})
                out["problems"].append((f"C10:exit:endpoint-open:{'+'.join(kinds)}", f"{len(still)} endpoint(s) open after the manager context was exited ({kinds}, created by {sorted({str(t.owner) for t in still})})"))
            n, e = late_datagrams(mw, [t for t in loop.transports if not t.kw.get("allow_broadcast")])
            if e is not None:
                out["problems"].append(("C10:late-datagram-raise", f"late datagram on an abandoned endpoint raised {e!r}"))
            mw.set_phase(Phase("healthy", 0))
            await asyncio.sleep(200)  # let every timer of the abandoned connection expire
            alive = [t.get_name() for t in lib_tasks(loop)]
            if alive:
                out["problems"].append(("C10:exit:tasks-reappeared", f"library tasks alive 200 s after exit: {alive}"))
            out["events_after_exit"] = [e["event"] for e in mw.events if e["event"] != "SPA_MAN_EXIT" and e["t"] > wat.retired_at.get(1, 1e18) and action == "exit"]

        try:
            mw.w.run(main())
        except ScenarioHang:
            pass  # nothing left scheduled after exit: that is the expected end
        except Watchdog as e:
            sh.inconc(f"watchdog {e}")
            return
        if out.get("harness_problem"):
            sh.inconc(out["harness_problem"])
            return
        sh.evaluations += 1
        wit = {"action": action, "at": t_crash, "shape": shape, "regime": regime, "suspend": suspend, "state_at_crash": out.get("state_at_crash"), "scenario": f"{seed}:{idx}"}
        # the non-atomic reset of C08/C09 (sequence pump made progress while the reset was
        # suspended in a client handler) is one mechanism with its own fingerprint
        def pump_inside(rec):
            return any(e["task"] == "SPAMAN:Sequence Pump" and rec["seq0"] < e["seq"] < rec.get("seq1", 1 << 60) for e in mw.events)

        mech = ":pump-interleaved-reset" if any(x["api"] == "async_reset" and pump_inside(x) for x in mw.api) else ""
        wit["pump_interleaved_reset"] = bool(mech)
        for key, what in out["problems"]:
            sh.violation(key + mech, what, wit)
        # every reset of the scenario - the automatic ones after a ping comes back included -, however it
        # ended: the connection endpoints that were open when it started are closed when it is over
        for x in mw.api:
            if x["api"] != "async_reset" or x.get("t1") is None:
                continue
            sh.count("resets_checked_for_endpoints")
            if x.get("task") and not str(x["task"]).startswith("Task-"):
                sh.count("automatic_resets_checked_for_endpoints")
            from vlib.aworld import REGIMES

            prompt = 1.0 + 4 * REGIMES[regime][0] + 4 * REGIMES[regime][2]  # plus what the schedule regime may add per step
            slow = [e_["name"] for e_ in x.get("conn_tasks_before", []) if e_["done_at"] is None or e_["done_at"] > x["t1"] + prompt]
            if slow and x.get("exc") is None:
                m2 = ":pump-interleaved-reset" if pump_inside(x) else ""
                sh.violation("C10:reset:tasks-alive" + m2, f"tasks of the connection that async_reset (task {x.get('task')}) let go of were still running {prompt:.1f} s after it returned: {sorted(set(slow))}", dict(wit, reset_task=x.get("task")))
            # ... and none of them delivers an event to the client once the reset is over
            gone = {e_["id"] for e_ in x.get("conn_tasks_before", []) if "id" in e_}
            late_evs = [(round(e["t"] - x["t1"], 2), e["event"], e["task"]) for e in mw.events if e.get("task_id") in gone and e["t"] > x["t1"] + prompt and e["task"] != x.get("task")]
            if late_evs and x.get("exc") is None:
                m2 = ":pump-interleaved-reset" if pump_inside(x) else ""
                sh.violation("C10:late-effect:abandoned-task-event" + m2, f"a task of the connection that async_reset let go of delivered events to the client after the reset was over: {late_evs[:3]}", dict(wit, reset_task=x.get("task")))
            left = [tr for tr in x.get("conn_endpoints_before", []) if tr.closed_at is None or tr.closed_at > x["t1"] + 0.5]
            if left:
                # an earlier reset of the scenario that interleaved with the pump leaves an orphan attempt
                # behind (known mechanism): endpoints of that orphan are attributed to it
                earlier = any(y["api"] == "async_reset" and y["seq0"] <= x["seq0"] and pump_inside(y) for y in mw.api)
                m2 = ":pump-interleaved-reset" if (pump_inside(x) or earlier) else ""
                sh.violation("C10:reset:connection-endpoint-open" + m2, f"{len(left)} connection endpoint(s) open when async_reset (task {x.get('task')}, ended with {x.get('exc')}) started were still open 0.5 s after it was over", dict(wit, reset_task=x.get("task"), reset_exc=x.get("exc")))
        late = wat.late_calls()
        if late:
            sh.violation("C10:late-observer-call" + mech, f"{len(late)} client observer call(s) after the teardown returned, e.g. {late[0][2]} at +{late[0][0] - wat.retired_at[late[0][1]]:.2f}s", dict(wit, calls=[(round(t, 2), g, w_) for t, g, w_ in late[:5]]))
        sh.count("observer_calls_total", len(wat.calls))
        sh.count("generations_watched", wat.generation)
        sh.count("transports_created", len(loop.transports))
        sh.count("socket_errors_injected", out.get("errors_injected", 0))
        if shape == "at-endpoint-creation":
            sh.count("actions_at_endpoint_creation")
        if out.get("landed_in_reset_callback"):
            sh.count("actions_while_the_automatic_reset_was_inside_a_client_callback")
        if out.get("counted_command_in_flight"):
            sh.count("resets_with_a_command_in_flight")
            if out.get("sync_api_command"):
                sh.count("resets_with_a_plain_api_command_in_flight")
        if out.get("wcerr_follow_up_in_flight"):
            sh.count("resets_with_a_watercare_error_follow_up_in_flight")
        if out.get("reset_via_clear_info"):
            sh.count("resets_made_by_clearing_the_spa_details")
            if out.get("reset_call_raised"):
                sh.see("clear_info_reset_raised", out["reset_call_raised"][:80])
        if out.get("landed_at_step"):
            sh.count("actions_at_a_scheduler_step")
        if out.get("consumer_suspended_at_action"):
            sh.count("actions_while_a_consumer_was_inside_a_client_callback")
        sh.see("states_at_crash", f"{action}:{out.get('state_at_crash')}")
        sh.nontrivial(f"{label}:{out.get('state_at_crash')}")
        if len(sh.samples) < 2:
            sh.sample(dict(wit, transports=[(t.owner, bool(t.kw.get("allow_broadcast")), t.closed) for t in loop.transports]))
    finally:
        mw.close()


def cycles(sh: Shard, seed, n):
    """N reconnect cycles: open endpoints and live tasks stay bounded."""
    from vlib.aworld import ScenarioHang, Watchdog
    from vlib.man import ManWorld, make_manager_class

    r = rng("C10c", seed)
    mw = ManWorld(r, "B", suspend="none", max_iter=30_000_000, wall_cap=900)
    try:
        Man = make_manager_class()
        loop = mw.w.loop
        series = []

        async def main():
            async with Man(mw, "02ac6d28-42d0-41e3-ad22-274d0aa491da", **mw.kw) as man:
                mw.man = man
                for i in range(n):
                    await mw.wait_state("CONNECTED", 60)
                    await asyncio.sleep(r.choice([0.5, 2, 7]))
                    series.append((len([t for t in loop.transports if not t.closed]), len(lib_tasks(loop))))
                    await man.async_reset()
                await mw.wait_state("CONNECTED", 60)
                await asyncio.sleep(3)
                series.append((len([t for t in loop.transports if not t.closed]), len(lib_tasks(loop))))

        try:
            mw.w.run(main())
        except (ScenarioHang, Watchdog) as e:
            sh.inconc(f"cycles: {type(e).__name__}")
            return
        sh.evaluations += 1
        opens = [a for a, b in series]
        tasks = [b for a, b in series]
        wit = {"cycles": n, "open_endpoints_series": opens[:12] + ["..."] + opens[-3:], "task_series": tasks[:12] + ["..."] + tasks[-3:]}
        if max(opens) > 1:
            sh.violation("C10:cycles:endpoints-grow", f"open endpoints while connected over {n} reconnect cycles: {opens[:10]}... max {max(opens)} (must stay <= 1)", wit)
        if max(tasks) > tasks[0] + 2:
            sh.violation("C10:cycles:tasks-grow", f"live library tasks over {n} reconnect cycles grow from {tasks[0]} to {max(tasks)}", wit)
        sh.count("reconnect_cycles", n)
        sh.maximum("max_open_endpoints_while_connected", max(opens))
        sh.maximum("max_live_tasks_while_connected", max(tasks))
        sh.nontrivial(f"cycles:{n}:{seed}")
    finally:
        mw.close()


def shard(sh: Shard, seed, cases, ncycles):
    for i, c in enumerate(cases):
        try:
            scenario(sh, seed, c["idx"], c["action"], c["t"], c["shape"], c["regime"], c["suspend"], c)
        except Exception as e:
            d = describe_exc(e)
            if d["where"] == "repo":
                sh.violation("C10:raise", f"{d['type']}: {d['msg']} escaped reset/exit", dict(d, case=c))
            else:
                raise
    if ncycles:
        cycles(sh, seed, ncycles)


def real_udp_crosscheck(run: Run):
    """Real asyncio loop + real UDP sockets on 127.0.0.1: descriptors before/after N cycles."""
    import json
    import subprocess
    import sys

    from vlib.common import HERE, child_env

    try:
        p = subprocess.run([sys.executable, "-m", "checks.c10_real"], env=child_env(), cwd=HERE, stdout=subprocess.PIPE, stderr=subprocess.PIPE, timeout=600)
        res = json.loads(p.stdout.decode().strip().splitlines()[-1])
    except Exception as e:
        run.extra["real_udp_crosscheck"] = f"skipped: {e!r}"
        return
    run.extra["real_udp_crosscheck"] = res
    if res.get("skipped"):
        return
    run.evaluations += 1
    if res["fd_after"] > res["fd_before"] + 1:
        run.violation("C10:real-udp:descriptors-grow", f"socket descriptors grew from {res['fd_before']} to {res['fd_after']} over {res['cycles']} real connect/reset cycles", res)


def main(tier, seed):
    run = Run("C10", tier, seed, "fault_enumeration")
    cases = []
    idx = 0
    grid = [round(0.1 * k, 2) for k in range(0, 61)] if tier == "quick" else [round(0.05 * k, 2) for k in range(0, 131)]
    regimes = ["B"] if tier == "quick" else ["B", "J", "H"]
    for action in ("reset", "exit"):
        for regime in regimes:
            for t in grid:
                for suspend in (("none",) if tier == "quick" else ("none", "tick")):
                    cases.append({"idx": idx, "action": action, "t": t, "shape": "plain", "regime": regime, "suspend": suspend})
                    idx += 1
            for t in (10.0, 30.0, 61.0, 125.0):
                cases.append({"idx": idx, "action": action, "t": t, "shape": "plain", "regime": regime, "suspend": "none"})
                idx += 1
            for shape, ts in (("outage", (9.0, 70.0, 140.0, 200.0, 260.0, 305.0)), ("rferr", (8.5, 20.0, 80.0, 125.0))):
                for t in ts:
                    cases.append({"idx": idx, "action": action, "t": t, "shape": shape, "regime": regime, "suspend": "tick" if idx % 2 else "none"})
                    idx += 1
            # after the outage is over: the automatic reset (ping received in an error state, made from
            # inside the connection's own ping-loop task) has happened before the action
            for shape, ts in (("outage", (380.0, 450.0)), ("rferr", (200.0, 260.0))):
                for t in ts:
                    for suspend in ("none", "tick", "seconds"):
                        cases.append({"idx": idx, "action": action, "t": t, "shape": shape, "regime": regime, "suspend": suspend})
                        idx += 1
    for action in ("reset", "exit"):
        for regime in regimes:
            for k in (1, 2):
                for suspend in ("none", "tick"):
                    cases.append({"idx": idx, "action": action, "t": float(k), "shape": "at-endpoint-creation", "regime": regime, "suspend": suspend})
                    idx += 1
            for t in (2.0, 4.5, 20.0, 65.0):
                cases.append({"idx": idx, "action": action, "t": t, "shape": "socket-error", "regime": regime, "suspend": "none"})
                idx += 1
            for t in (0.0, 0.05, 0.2):
                cases.append({"idx": idx, "action": action, "t": t, "shape": "in-consumer-callback", "regime": regime, "suspend": "seconds"})
                idx += 1
            for t in (0.0, 0.05, 0.2):
                cases.append({"idx": idx, "action": action, "t": t, "shape": "in-reset-callback", "regime": regime, "suspend": "seconds"})
                idx += 1
            if action == "reset":
                for t in (0.0, 1.0, 2.0, 3.0):
                    cases.append({"idx": idx, "action": action, "t": t, "shape": "command-in-flight", "regime": regime, "suspend": "none"})
                    idx += 1
                for t in (0.0, 2.0):
                    cases.append({"idx": idx, "action": action, "t": t, "shape": "command-in-flight", "regime": regime, "suspend": "none", "sync_api": True})
                    idx += 1
                for t in (0.0, 1.5, 4.0):
                    cases.append({"idx": idx, "action": action, "t": t, "shape": "wcerr-follow-up", "regime": regime, "suspend": "none"})
                    idx += 1
                # the reset made by clearing the spa details, at steady-state and handshake instants
                for t in (2.5, 7.0, 12.0, 30.0):
                    cases.append({"idx": idx, "action": action, "t": t, "shape": "plain", "regime": regime, "suspend": ["none", "tick"][idx % 2], "via": "clear-info"})
                    idx += 1
            # every scheduler step from entering the context to the steady state (about 260 steps to
            # CONNECTED, then the first polls of the steady state)
            for k in range(0, 330, 3 if tier == "quick" else 1):
                cases.append({"idx": idx, "action": action, "t": float(k), "shape": "at-step", "regime": regime, "suspend": "none" if k % 2 else "tick"})
                idx += 1
    n = NCPU
    jobs = [{"seed": seed, "cases": cases[i::n], "ncycles": (12 if tier == "quick" else 50) if i < 2 else 0} for i in range(n)]
    run.absorb(run_shards("checks.c10", "shard", jobs, timeout=3400))
    if tier == "thorough":
        real_udp_crosscheck(run)
    sc = run.sets.get("states_at_crash", set())
    for st in ("LOCATING_SPAS", "CONNECTING", "CONNECTED"):
        for a in ("reset", "exit"):
            run.need(f"{a}:{st}" in sc, f"no {a} injected in state {st}")
    run.need(any(s.split(":")[1].startswith("ERROR_") for s in sc), "no crash point in an error state")
    run.need(run.counters.get("reconnect_cycles", 0) >= 10, "reconnect cycles not run")
    run.need(run.counters.get("socket_errors_injected", 0) >= 4, "socket errors before reset/exit not exercised")
    run.need(run.counters.get("actions_at_endpoint_creation", 0) >= 4, "no reset/exit landed exactly at an endpoint creation")
    run.need(run.counters.get("actions_while_the_automatic_reset_was_inside_a_client_callback", 0) >= 4, "no reset/exit landed while the automatic reset was suspended inside a client callback")
    run.need(run.counters.get("resets_with_a_command_in_flight", 0) >= 3, "no reset landed while a client command was in flight")
    run.need(run.counters.get("resets_with_a_plain_api_command_in_flight", 0) >= 1 and run.counters.get("resets_with_a_watercare_error_follow_up_in_flight", 0) >= 1 and run.counters.get("resets_made_by_clearing_the_spa_details", 0) >= 4, "plain-API command / watercare-error follow-up in flight at a reset, or resets made by clearing the spa details, not exercised")
    run.need(run.counters.get("actions_at_a_scheduler_step", 0) >= 200, "too few actions landed at an exact scheduler step")
    run.need(run.counters.get("actions_while_a_consumer_was_inside_a_client_callback", 0) >= 4, "no reset/exit landed while a consumer task was suspended inside a client callback")
    run.extra["crash_points"] = len(cases)
    return run.finish(
        rule="crash-point enumeration: a reset, and separately the context exit, injected at every instant of a 100 ms grid (thorough: 50 ms, three regimes, handlers none/tick) over locate + handshake, at steady-state instants and at instants of outage / RF-error scripts (error states), plus 12-50 reconnect cycles; one evaluation = one injected reset/exit; distinct = distinct (action, instant, shape, regime, handler, state at crash)",
        assumptions=["a discovery endpoint opened before a reset may live until that discovery run ends (bounded by the discovery timeout)", "FakeTransport.close() schedules connection_lost like asyncio's datagram transport (cross-checked against real sockets in the thorough tier)", "status-sensor callbacks are manager-level, not part of an abandoned connection"],
    )


def replay(path):
    from vlib.common import replay_args

    return main(*replay_args(path))
