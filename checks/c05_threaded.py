"""C05, threaded client: partial updates (also during the handshake), silent spa changes
and refreshes on the real GeckoSpa under the baton scheduler."""
from __future__ import annotations

import struct

from checks.c05 import apply_changes
from vlib.common import NCPU, Shard, describe_exc, rng, run_shards


def history(sh: Shard, seed, idx):
    from geckolib.driver import GeckoPartialStatusBlockProtocolHandler as P
    from vlib.trig import CLIENT_ID, SPA_ID, TRig
    from vlib.vthreads import Deadlock, Stuck

    r = rng("C05t", seed, idx)
    rig = TRig(r, snapshot=r.choice(["default.snapshot", "inYT-Pump1Lo-2020-12-13 11_19_35.snapshot"]))
    ops = []
    uniq = [0x3000]

    def word():
        uniq[0] += 1
        return struct.pack(">H", uniq[0])

    try:
        s = rig.s
        spa = rig.make_spa()
        early = r.random() < 0.6
        import contextlib
        import io

        with contextlib.redirect_stdout(io.StringIO()):
            spa.start_connect()
        n_acks_expected = 0
        early_positions = []
        if early:
            # partial updates arriving while the handshake is still in progress
            s.sleep(r.choice([0.2, 0.6, 1.0]))
            for _ in range(r.randrange(1, 3)):
                ch = [(r.randrange(300, 700), word()) for _ in range(r.randrange(1, 3))]
                early_positions += [p_ for p_, _ in ch]
                rig.set_sim_block(apply_changes(rig.sim_block, ch))
                rig.sim_say(P.report_changes(rig.sim._socket, ch, parms=rig.client_parms))
                n_acks_expected += 1
                ops.append(("EARLY-STATP", len(ch)))
                sh.count("threaded_early_statp")
        if early and r.random() < 0.6:
            # ... and one that arrives in the MIDDLE of the initial full-block transfer (delivered
            # straight to the client's socket: the simulator's own send queue is busy with the chain)
            if s.run_until(lambda: any(x["verb"] == "STATV" for x in rig.net.log), 30):
                ch = [(r.randrange(300, 700), word()) for _ in range(r.randrange(1, 3))]
                early_positions += [p_ for p_, _ in ch]
                # (the chain under way was cut from the spa's block when the request arrived: if this
                # update is applied before the chain is installed, the older content rightly wins -
                # arrival order; at these positions either value is admissible right after the handshake)
                mid = {p_ + k_: (rig.sim_block[p_ + k_], d_[k_]) for p_, d_ in ch for k_ in range(len(d_))}
                rig.set_sim_block(apply_changes(rig.sim_block, ch))
                data = P.report_changes(rig.sim._socket, ch, parms=rig.client_parms).send_bytes
                s.at(s.now + r.choice([0.001, 0.05, 0.2]), (lambda d=data: rig.client_sock.inbox.append((d, ("10.0.0.1", 10022)))))
                n_acks_expected += 1
                ops.append(("MID-FETCH-STATP", len(ch)))
                sh.count("threaded_statp_during_the_initial_fetch")
        if not s.run_until(lambda: spa._is_connected, 90):
            sh.inconc("threaded rig could not connect")
            return
        spa.refresh = lambda: None
        rig.quiesce()
        ref = spa.struct.status_block
        mid = locals().get("mid") or {}
        if mid and len(ref) == 1024 and all(ref[q] in vals for q, vals in mid.items()) and all(ref[q] == rig.sim_block[q] for q in range(1024) if q not in mid):
            # restart from agreement: the spa "has" what the client ended with at those positions
            nb_ = bytearray(rig.sim_block)
            for q in mid:
                nb_[q] = ref[q]
            rig.set_sim_block(bytes(nb_))
            sh.count("threaded_mid_fetch_updates_resolved_by_arrival_order")
        if ref != rig.sim_block:
            sh.violation("C05:threaded:block-mismatch", "client block differs from the spa's right after the handshake (partial updates arrived during it)", {"history": ops})
            ref = rig.sim_block
        from geckolib.driver import GeckoStatusBlockProtocolHandler as SB

        forced = []
        if early_positions:
            # the positions touched during the handshake change again, silently, and are refreshed
            forced = [("silent", p_) for p_ in early_positions] + [("refresh", None), ("statp", None)]
        if idx % 8 == 1:
            # a flood: the spa (or a recovering link) delivers several hundred partial updates a
            # millisecond apart - far faster than the client's send throttle lets acknowledgements out
            nfl = r.choice([520, 650])
            msgs = []
            for k in range(nfl):
                ch = [(r.choice([r.randrange(0, 1022), 300, 301]), word())]
                rig.set_sim_block(apply_changes(rig.sim_block, ch))
                ref = apply_changes(ref, ch)
                msgs.append(P.report_changes(rig.sim._socket, ch, parms=rig.client_parms).send_bytes)
            t0 = s.now
            for k, data in enumerate(msgs):
                s.at(t0 + 0.01 + k * 0.001, (lambda d=data: rig.client_sock.inbox.append((d, ("10.0.0.1", 10022)))))
            n_acks_expected += nfl
            s.sleep(nfl * 0.001 + 0.5)
            rig.quiesce(settle=0.5, limit=nfl / 40.0 + 30)
            sh.count("threaded_floods")
            sh.evaluations += 1
            if spa.struct.status_block != ref:
                bad = [i for i in range(min(len(spa.struct.status_block), len(ref))) if spa.struct.status_block[i] != ref[i]][:6]
                sh.violation("C05:threaded:block-mismatch", f"threaded client block differs from the reference at {bad} after a flood of {nfl} partial updates", {"history": ["FLOOD", nfl], "positions": bad})
                ref = spa.struct.status_block
            got_acks = len([x for x in rig.c2s() if x["verb"] == "STATQ"])
            if got_acks != n_acks_expected:
                sh.violation("C05:threaded:ack-count", f"after a flood of {nfl} partial updates a millisecond apart: {n_acks_expected} delivered, {got_acks} acknowledgements sent", {"history": ["FLOOD", nfl]})
                n_acks_expected = got_acks
            ops.append(("FLOOD", nfl))
        long_lived = idx == 0  # one connection per run with enough acknowledgements for the counter to wrap twice
        if long_lived:
            sh.count("threaded_long_connections")
        for step in range(420 if long_lived else r.randrange(6, 20)):
            n0 = len(rig.net.log)
            x = r.random()
            force = forced.pop(0) if forced else None
            if force:
                x = {"silent": 0.6, "refresh": 0.9, "statp": 0.1}[force[0]]
            elif long_lived:
                x = 0.1 if step % 40 else 0.9
            if x < 0.5:
                ch = [(r.choice([r.randrange(0, 1022), 300, 301]), word()) for _ in range(r.choice([0, 1, 1, 2, 5, 5, 127, 128, 200, 254]))]
                if ch and len(ch) <= 250 and r.random() < 0.3:
                    ch.append((ch[0][0], word()))  # the same position again, later in the same message
                if ch and len(ch) <= 250 and r.random() < 0.3:
                    # a later record of the same message puts back what was there before the message
                    p0 = ch[0][0]
                    before_ = rig.sim_block
                    if r.random() < 0.5:
                        ch.append((p0, before_[p0 : p0 + 2]))
                    elif p0 + 3 <= 1024:
                        ch.append((p0 + 1, before_[p0 + 1 : p0 + 3]))
                    sh.count("threaded_statp_with_restoring_record")
                if len(ch) >= 128:
                    sh.count("threaded_statp_with_128_or_more_records")
                rig.set_sim_block(apply_changes(rig.sim_block, ch))
                ref = apply_changes(ref, ch)
                rig.sim_say(P.report_changes(rig.sim._socket, ch, parms=rig.client_parms))
                ops.append(("STATP", len(ch)))
                sh.count("threaded_statp")
                n_acks_expected += 1
            elif x < 0.7:
                pos = force[1] if force else r.choice([300, 301, r.randrange(256, 730)])
                rig.set_sim_block(apply_changes(rig.sim_block, [(pos, word())]))
                ops.append(("SILENT", pos))
                sh.count("threaded_silent")
            else:
                st, ln = r.choice([(0, 1024), (256, 479)])
                req = SB.request(spa.get_and_increment_sequence_counter(False), st, ln, parms=spa.sendparms)
                spa.struct.retry_request(spa, req, spa.sendparms)
                s.run_until(lambda: req not in spa._receive_handlers, 60)
                from vlib.libconst import segment_size

                SEG = segment_size()
                end = min(st + (-(-ln // SEG)) * SEG, 1024)
                ref = ref[:st] + rig.sim_block[st:end] + ref[end:]
                ops.append(("REFRESH", st, ln))
                sh.count("threaded_refresh")
            rig.quiesce(settle=0.25)
            got = spa.struct.status_block
            sh.evaluations += 1
            if got != ref:
                bad = [i for i in range(min(len(got), len(ref))) if got[i] != ref[i]][:6]
                sh.violation("C05:threaded:block-mismatch", f"threaded client block differs from the sequentially-updated reference at {bad} (size {len(got)})", {"history": ops[-12:], "positions": bad})
                ref = got
            else:
                sh.count("threaded_points_matched")
        acks = [x for x in rig.c2s() if x["verb"] == "STATQ"]
        if len(acks) != n_acks_expected:
            sh.violation("C05:threaded:ack-count", f"{n_acks_expected} partial updates delivered, {len(acks)} acknowledgements sent", {"history": ops[-12:]})
        for a in acks:
            i = a["data"].find(b"<DATAS>") + 7
            seq = a["data"][i + 5]
            okframe = a["data"].startswith(b"<PACKT><SRCCN>" + CLIENT_ID + b"</SRCCN><DESCN>" + SPA_ID + b"</DESCN>")
            if not (1 <= seq <= 191) or not okframe:
                sh.violation("C05:threaded:ack-form", f"acknowledgement with sequence {seq}, frame ok={okframe}", {"ack": a["data"]})
            else:
                sh.count("threaded_acks_ok")
        sh.nontrivial(f"T:{seed}:{idx}:{len(ops)}:{early}")
    except (Deadlock, Stuck) as e:
        sh.inconc(f"{type(e).__name__}: {e}")
    except Exception as e:
        d = describe_exc(e)
        if d["where"] == "repo":
            sh.violation("C05:threaded:raise", f"{d['type']}: {d['msg']}", d)
        else:
            raise
    finally:
        rig.close()


def shard(sh: Shard, seed, lo, hi):
    for idx in range(lo, hi):
        history(sh, seed, idx)


def add(run, tier, seed):
    per = 8 if tier == "quick" else 200
    jobs = [{"seed": seed, "lo": i * per, "hi": (i + 1) * per} for i in range(NCPU)]
    run.absorb(run_shards("checks.c05_threaded", "shard", jobs, timeout=3000))
    run.need(run.counters.get("threaded_points_matched", 0) > 200, "threaded client: too few comparison points")
    run.need(run.counters.get("threaded_statp_during_the_initial_fetch", 0) > 10, "threaded client: no partial update in the middle of the initial transfer")
    run.need(run.counters.get("threaded_early_statp", 0) > 10, "threaded client: no partial update during the handshake")
    run.need(run.counters.get("threaded_acks_ok", 0) > 100, "threaded client: too few acknowledgements")
    run.need(run.counters.get("threaded_statp_with_128_or_more_records", 0) >= 5, "threaded client: no partial update with 128 or more records")
    run.need(run.counters.get("threaded_statp_with_restoring_record", 0) >= 20, "threaded client: no partial update with a record restoring the previous value")
    run.need(run.counters.get("threaded_floods", 0) >= 4, "threaded client: no flood of partial updates")
    run.need(run.counters.get("threaded_long_connections", 0) >= 1, "threaded client: the long-lived connection was not driven")
