"""C01, threaded structure class: GeckoStructure.retry_request against the real simulator
under the baton scheduler, with the same oracle as the async part."""
from __future__ import annotations

from checks.c01 import SEG, make_blocks, nseg, seg_info
from vlib.common import NCPU, Shard, describe_exc, rng, run_shards


def shard(sh: Shard, seed, wseed, cases):
    from geckolib.driver import GeckoStatusBlockProtocolHandler
    from vlib.trig import TRig
    from vlib.vthreads import Deadlock, Stuck

    r = rng("C01t", seed, wseed)
    rig = TRig(r)
    try:
        if not rig.connect():
            sh.inconc("threaded rig could not connect")
            return
        spa, s = rig.spa, rig.s
        # a case may name a transfer to make right after it on the same structure (state left over
        # by a transfer that failed part way must not leak into the next one)
        expanded = []
        for c in cases:
            expanded.append(c)
            if c.get("follow"):
                expanded.append({"start": c["follow"][0], "length": c["follow"][1], "fault": {"kind": "none"}, "id": f"{c['id']}f"})
                sh.count("threaded_follow_up_transfers")
        if wseed == 0:
            # one long-lived connection per run: 200 small fault-free transfers in a row, so that the
            # request counter passes through every value of its cycle (and wraps) on STATU requests
            lr = rng("C01tlong", seed)
            expanded = [{"start": lr.randrange(0, 1000), "length": lr.choice([1, 2, 5, 20, 39]), "fault": {"kind": "none"}, "id": f"long{k}"} for k in range(200)] + expanded
            sh.count("threaded_long_connection_transfers", 200)
        twin = None
        for case in expanded:
            cr = rng("C01tcase", seed, wseed, case["id"])
            start, length = case["start"], case["length"]
            if case.get("nested") or case.get("twin"):
                if case.get("twin") and twin is None:
                    twin = rig.second_client()
                    if twin is None:
                        sh.count("threaded_twin_could_not_connect")
                        continue
                if not special_case(sh, rig, twin, case, cr):
                    return
                continue
            S, B0 = make_blocks(cr, cr.choice(["random", "tags"]))
            spa.struct.set_status_block(B0)
            rig.set_sim_block(S)
            installs = []
            orig = spa.struct.replace_status_block_segment

            def tapped(offset, segment):
                installs.append((offset, len(segment)))
                return orig(offset, segment)

            spa.struct.replace_status_block_segment = tapped
            state = {"attempt": 0, "hit": 0}
            f = case["fault"]

            def fault(rec):
                v = rec["verb"]
                if v == "STATU":
                    state["attempt"] += 1
                    if f["kind"] == "drop-req" and state["attempt"] in f["attempts"]:
                        state["hit"] += 1
                        return []
                    if f["kind"] == "blackout":
                        state["hit"] += 1
                        return []
                    if f["kind"] == "dup-req-burst" and state["attempt"] == 1:
                        state["hit"] += 1
                        return [0.001, 0.0015]
                    if f["kind"] == "dup-req" and state["attempt"] in f["attempts"]:
                        # the request reaches the spa twice: two complete reply chains arrive back to back
                        state["hit"] += 1
                        return [0.001, 0.001 + f.get("gap", 0.0005)]
                elif v == "STATV":
                    _, idx, nxt = seg_info(rec["data"])
                    ok = state["attempt"] in f.get("attempts", [])
                    if f["kind"] == "blackout":
                        return []
                    if f["kind"] == "dup-req-burst" and state["attempt"] == 1:
                        # both reply chains are held back by the network and released as one burst
                        # (the simulator paces its sends; a real spa or a recovering link does not)
                        if "burst_at" not in state:
                            state["burst_at"] = rec["t"] + f["hold"]
                            state["n"] = 0
                        state["n"] += 1
                        return [max(0.0005, state["burst_at"] + state["n"] * 0.0004 - rec["t"])]
                    if f["kind"] == "drop-seg" and ok and idx == f["idx"]:
                        state["hit"] += 1
                        return []
                    if f["kind"] == "dup-seg" and ok and idx == f["idx"]:
                        state["hit"] += 1
                        return [0.001, 0.004]
                    if f["kind"] == "swap" and ok and idx == f["idx"]:
                        state["hit"] += 1
                        return [0.034]
                    if f["kind"] == "drop-last" and ok and nxt == 0:
                        state["hit"] += 1
                        return []
                    if f["kind"] == "random":
                        x = cr.random()
                        if x < f["p_drop"]:
                            state["hit"] += 1
                            return []
                        if x < f["p_drop"] + f["p_dup"]:
                            state["hit"] += 1
                            return [0.001, 0.001 + cr.uniform(0, f["max_delay"])]
                return None

            rig.net.fault = fault
            n0 = len(rig.net.log)
            # the retry budget is whatever the configuration says when the transfer starts
            from geckolib.config import GeckoConfig

            saved_rc = GeckoConfig.PROTOCOL_RETRY_COUNT
            if "cfg_retry" in case:
                GeckoConfig.PROTOCOL_RETRY_COUNT = case["cfg_retry"]
                sh.count("threaded_transfers_with_reconfigured_retry_count")
            allowed = GeckoConfig.PROTOCOL_RETRY_COUNT
            req = GeckoStatusBlockProtocolHandler.request(spa.get_and_increment_sequence_counter(False), start, length, parms=spa.sendparms)
            GeckoConfig.PROTOCOL_RETRY_COUNT = saved_rc
            budget = (req._retry_count + 2) * (req._timeout_in_seconds + 1) + 10
            try:
                spa.struct.retry_request(spa, req, spa.sendparms)
                done = s.run_until(lambda: req not in spa._receive_handlers, budget)
            except (Deadlock, Stuck) as e:
                sh.inconc(f"{type(e).__name__}")
                return
            rig.net.fault = None
            rig.quiesce(settle=0.3, limit=5)
            del spa.struct.replace_status_block_segment
            after = spa.struct.status_block
            statu = [x for x in rig.c2s(n0) if x["verb"] == "STATU"]
            sh.evaluations += 1
            wit = {"class": "GeckoStructure", "start": start, "length": length, "fault": f, "statu_sent": len(statu), "installs": installs, "fault_hits": state["hit"], "removed": done}
            success = len(installs) >= 1
            if not done:
                sh.violation("C01:threaded:never-finishes", "the status-block request handler was never removed (transfer neither succeeded nor failed)", wit)
            if len(statu) > 1 + allowed:
                sh.violation("C01:threaded:too-many-requests", f"{len(statu)} STATU requests on the wire (1 + {allowed} retries configured when the transfer started)", wit)
            if len(after) != 1024:
                sh.violation("C01:threaded:block-size", f"client block is {len(after)} bytes after the transfer", wit)
            if success:
                sh.count("threaded_success")
                if len(installs) != 1:
                    sh.violation("C01:threaded:install-count", f"{len(installs)} installs during one transfer", wit)
                if after[start : start + length] != S[start : start + length]:
                    sh.violation("C01:threaded:wrong-bytes", "transfer installed but requested bytes differ from the spa's", wit)
                foreign = [i for i in range(min(len(after), 1024)) if after[i] != B0[i] and after[i] != S[i]][:8]
                if foreign:
                    sh.violation("C01:threaded:foreign-bytes", f"bytes changed to something that is not the spa's value at {foreign}", wit)
            else:
                sh.count("threaded_failure")
                if after != B0:
                    sh.violation("C01:threaded:failed-but-modified", "no install happened but the client block changed", wit)
                if f["kind"] == "none":
                    sh.violation("C01:threaded:fault-free-failed", f"fault-free transfer start={start} length={length} failed", wit)
            if state["hit"] or f["kind"] == "none":
                sh.nontrivial(f"T:{start}:{length}:{f['kind']}:{f.get('idx')}:{success}")
            sh.see("threaded_fault_kinds", f["kind"])
            if any(isinstance(e, Exception) and not (isinstance(e, RuntimeError) and "too long" in str(e)) for _, e in s.errors):
                sh.violation("C01:threaded:thread-died", f"a library thread died: {s.errors[-1]!r}", wit)
                return
    except Exception as e:
        d = describe_exc(e)
        if d["where"] == "repo":
            sh.violation("C01:threaded:raise", f"{d['type']}: {d['msg']}", d)
        else:
            raise
    finally:
        rig.close()


def special_case(sh: Shard, rig, twin, case, cr):
    """Two transfers whose lives overlap: (nested) the second is started by a client observer from
    inside the change notification of the first one's install - what GeckoSpa.refresh() called from a
    user callback does; (twin) it runs on a second client object of the same process against the
    same spa.  Both must satisfy the install-or-nothing oracle for their own range."""
    from geckolib.driver import GeckoStatusBlockProtocolHandler
    from vlib.vthreads import Deadlock, Stuck

    spa, s = rig.spa, rig.s
    start, length = case["start"], case["length"]
    st2, ln2 = case.get("nested") or case["twin"]
    other = spa if case.get("nested") else twin
    S, B0 = make_blocks(cr, "random")
    B0b = bytes((x + 7) % 256 if (x + 7) % 256 != S[i] else (x + 8) % 256 for i, x in enumerate(B0))
    spa.struct.set_status_block(B0)
    if other is not spa:
        other.struct.set_status_block(B0b)
    rig.set_sim_block(S)
    installs = {id(spa.struct): [], id(other.struct): []}
    origs = {}
    for st_ in {id(spa.struct): spa.struct, id(other.struct): other.struct}.values():
        def tapped(offset, segment, st_=st_, orig=st_.replace_status_block_segment):
            installs[id(st_)].append((offset, len(segment)))
            return orig(offset, segment)

        origs[id(st_)] = st_
        st_.replace_status_block_segment = tapped
    req1 = GeckoStatusBlockProtocolHandler.request(spa.get_and_increment_sequence_counter(False), start, length, parms=spa.sendparms)
    reqs = [req1]
    watched = []
    if case.get("nested"):
        fired = []

        def on_change(sender, old, new):
            if not fired:
                fired.append(sender.tag if hasattr(sender, "tag") else repr(sender))
                req2 = GeckoStatusBlockProtocolHandler.request(spa.get_and_increment_sequence_counter(False), st2, ln2, parms=spa.sendparms)
                reqs.append(req2)
                spa.struct.retry_request(spa, req2, spa.sendparms)

        for acc in spa.struct.accessors.values():
            pos = getattr(acc, "pos", None)
            if pos is not None and start <= pos < start + length and len(watched) < 8:
                acc.watch(on_change)
                watched.append(acc)
    try:
        spa.struct.retry_request(spa, req1, spa.sendparms)
        if case.get("twin"):
            s.sleep(case["delta"])
            req2 = GeckoStatusBlockProtocolHandler.request(other.get_and_increment_sequence_counter(False), st2, ln2, parms=other.sendparms)
            reqs.append(req2)
            other.struct.retry_request(other, req2, other.sendparms)
        budget = 3 * ((req1._retry_count + 2) * (req1._timeout_in_seconds + 1) + 10)
        done = s.run_until(lambda: len(reqs) == 2 and req1 not in spa._receive_handlers and reqs[1] not in other._receive_handlers, budget)
    except (Deadlock, Stuck) as e:
        sh.inconc(f"{type(e).__name__}")
        return False
    finally:
        for acc in watched:
            try:
                acc.unwatch(on_change)
            except Exception:
                pass
    rig.quiesce(settle=0.3, limit=5)
    for st_ in origs.values():
        del st_.replace_status_block_segment
    sh.evaluations += 1
    kind = "nested" if case.get("nested") else "twin"
    wit = {"class": "GeckoStructure", "kind": kind, "first": (start, length), "second": (st2, ln2), "delta": case.get("delta"), "installs_first_structure": installs[id(spa.struct)], "installs_second_structure": installs[id(other.struct)]}
    if not done:
        if len(reqs) < 2:
            sh.count("threaded_nested_observer_never_fired")
            return True
        sh.violation(f"C01:threaded:{kind}:never-finishes", "two overlapping transfers: a status-block request handler was never removed", wit)
        return True
    sh.count(f"threaded_{kind}_transfers")
    sh.nontrivial(f"T:{kind}:{start}:{length}:{st2}:{ln2}:{case.get('delta')}")
    for who, struct, b0, ranges in ((("first", spa.struct, B0, [(start, length)] + ([(st2, ln2)] if other is spa else [])),) + ((("second", other.struct, B0b, [(st2, ln2)]),) if other is not spa else ())):
        after = struct.status_block
        if len(after) != 1024:
            sh.violation(f"C01:threaded:{kind}:block-size", f"{who} client block is {len(after)} bytes after two overlapping transfers", wit)
            continue
        foreign = [i for i in range(1024) if after[i] != b0[i] and after[i] != S[i]][:8]
        if foreign:
            sh.violation(f"C01:threaded:{kind}:foreign-bytes", f"{who} structure: bytes changed to something that is not the spa's value at {foreign}", wit)
        ins = installs[id(struct)]
        for a, ln in ranges:
            # (the simulator answers in whole 39-byte segments: an install may be longer than asked)
            installed = any(o == a and n >= ln for o, n in ins)
            part = after[a : a + ln]
            if installed and part != S[a : a + ln]:
                sh.violation(f"C01:threaded:{kind}:wrong-bytes", f"{who} structure: range ({a},{ln}) was installed but its bytes differ from the spa's", wit)
            if part != S[a : a + ln] and part != b0[a : a + ln] and not installed:
                sh.violation(f"C01:threaded:{kind}:partial-install", f"{who} structure: range ({a},{ln}) is neither the spa's nor untouched", wit)
            if part != S[a : a + ln]:
                sh.violation(f"C01:threaded:{kind}:fault-free-failed", f"{who} structure: the fault-free transfer ({a},{ln}) did not bring the spa's bytes", wit)
    return True


def gen(tier, seed):
    r = rng("C01tg", seed, tier)
    cases = []
    none = {"kind": "none"}
    lens = [1, 2, 38, 39, 40, 77, 78, 79, 117, 156, 479, 1014, 1023, 1024] + [r.randrange(1, 1025) for _ in range(10 if tier == "quick" else 200)]
    for L in lens:
        cases.append({"start": 0, "length": L, "fault": none})
    for _ in range(40 if tier == "quick" else 3000):
        st = r.randrange(1024)
        cases.append({"start": st, "length": r.randrange(1, 1025 - st), "fault": none})
    shapes = [(0, 1024), (256, 479), (5, 78)] + ([(100, 117), (700, 156), (0, 40)] if tier == "thorough" else [])
    for st, L in shapes:
        n = nseg(L)
        idxs = range(n) if tier == "thorough" else sorted(set([0, 1, n // 2, n - 2, n - 1]) & set(range(n)))
        for i in idxs:
            for kind in ("drop-seg", "dup-seg") + (("swap",) if i < n - 1 else ()):
                cases.append({"start": st, "length": L, "fault": {"kind": kind, "idx": i, "attempts": [1]}})
        cases.append({"start": st, "length": L, "fault": {"kind": "drop-req", "attempts": [1, 2]}})
        if nseg(L) * 2 * 0.05 + 0.3 < 3.6:
            cases.append({"start": st, "length": L, "fault": {"kind": "dup-req-burst", "hold": nseg(L) * 2 * 0.05 + 0.3}, "follow": (st, L)})
        for gap in (0.0, 0.0005, 0.03, 0.4):
            cases.append({"start": st, "length": L, "fault": {"kind": "dup-req", "attempts": [1], "gap": gap}, "follow": (st, L)})
        cases.append({"start": st, "length": L, "fault": {"kind": "drop-last", "attempts": [1, 2]}})
        cases.append({"start": st, "length": L, "fault": {"kind": "blackout"}, "follow": (st, L)})
        # every attempt loses a segment (its tail / one in the middle): the transfer fails after
        # having collected data, and a fault-free transfer follows on the same structure
        allatt = list(range(1, 40))
        for n_ in (0, 2, 3):
            cases.append({"start": st, "length": L, "fault": {"kind": "drop-seg", "idx": 1 if n > 1 else 0, "attempts": allatt}, "cfg_retry": n_, "follow": (st, L)})
        cases.append({"start": st, "length": L, "fault": {"kind": "drop-last", "attempts": allatt}, "follow": (st, L)})
        if n > 2:
            cases.append({"start": st, "length": L, "fault": {"kind": "drop-seg", "idx": n // 2, "attempts": allatt}, "follow": (0, 1024)})
    for _ in range(30 if tier == "quick" else 2000):
        st = r.choice([0, 256, r.randrange(900)])
        cases.append({"start": st, "length": r.randrange(40, 1025 - st), "fault": {"kind": "random", "p_drop": r.choice([0.02, 0.1, 0.3]), "p_dup": r.choice([0, 0.1]), "max_delay": r.choice([0.03, 0.3])}})
    # ---- two transfers whose lives overlap: started from a change notification of the first; on a
    # second client object of the process
    for _ in range(16 if tier == "quick" else 300):
        st = r.choice([0, 0, 256, r.randrange(600)])
        L = r.choice([1024 - st, r.randrange(60, 1025 - st)])
        st2 = r.choice([r.randrange(1, 900), 275, 512])
        cases.append({"start": st, "length": L, "fault": none, "nested": (st2, r.randrange(1, 1025 - st2))})
    for _ in range(16 if tier == "quick" else 300):
        st = r.choice([0, 0, 256, r.randrange(600)])
        L = r.choice([1024 - st, r.randrange(200, 1025 - st)])
        st2 = r.choice([0, r.randrange(0, 900)])
        cases.append({"start": st, "length": L, "fault": none, "twin": (st2, r.randrange(1, 1025 - st2)), "delta": r.choice([0.0, 0.03, 0.1, 0.25, r.uniform(0, 0.5)])})
    for i, c in enumerate(cases):
        c["id"] = i
    return cases


def add(run, tier, seed):
    cases = gen(tier, seed)
    n = NCPU
    jobs = [{"seed": seed, "wseed": i, "cases": cases[i::n]} for i in range(n) if cases[i::n]]
    run.absorb(run_shards("checks.c01_threaded", "shard", jobs, timeout=3000))
    run.need(run.counters.get("threaded_success", 0) > 60 and run.counters.get("threaded_failure", 0) > 2, "threaded structure: too few successful/failed transfers")
    run.need(run.counters.get("threaded_transfers_with_reconfigured_retry_count", 0) >= 6, "threaded structure: retry count never reconfigured at run time")
    run.need(run.counters.get("threaded_follow_up_transfers", 0) >= 6, "threaded structure: no fault-free transfer right after a failed one")
    run.need(run.counters.get("threaded_long_connection_transfers", 0) >= 200, "threaded structure: the long-lived connection (request counter through its whole cycle) was not driven")
    run.need(run.counters.get("threaded_nested_transfers", 0) >= 4, "threaded structure: no transfer started from inside a change notification")
    run.need(run.counters.get("threaded_twin_transfers", 0) >= 4 or run.counters.get("threaded_twin_could_not_connect", 0) > 0, "threaded structure: no overlapping transfers on two client objects")
    fk = run.sets.get("threaded_fault_kinds", set())
    for k in ("none", "drop-seg", "dup-seg", "swap", "drop-req", "dup-req", "dup-req-burst", "drop-last", "blackout", "random"):
        run.need(k in fk, f"threaded structure: fault kind {k} never exercised")
