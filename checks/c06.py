"""C06 - request engine: bounded retries, one request in flight, every caller completes.

Monitors (all at the engine's own boundaries, attached to the instance from the
harness): call/return of protocol.get and struct.get, every create_func call, every
queue_send (engine -> transport), queue pops with the popping handler object, the
wire log, and call/return of the gated spa APIs.  Level 1: a real connected client with
reply loss/delay/duplication scripts and 1-12 concurrent callers of mixed kinds.
Level 2: the same client with its ping, refresh and facade-update loops and user
commands competing through healthy and blackout phases (gate clause).
"""
from __future__ import annotations

import asyncio
import inspect

from vlib.common import NCPU, Run, Shard, describe_exc, rng, run_shards

from vlib.libconst import poll, retry_pause
GATED_VERBS = ("SPACK", "GETWC", "SETWC", "REQRM")


class BuilderFailed(Exception):
    """raised by a request builder on purpose (an out-of-range value reaching struct.pack does this)"""


class Call:
    __slots__ = ("kind", "N", "t_invoke", "creates", "tx", "t_return", "result", "task", "engine", "exc")

    def __init__(self, kind, N, t, task, engine):
        self.kind, self.N, self.t_invoke, self.task, self.engine = kind, N, t, task, engine
        self.creates, self.tx = [], []
        self.t_return, self.result, self.exc = None, None, None


class EngineMonitor:
    def __init__(self, sh, rig):
        self.sh, self.rig, self.w = sh, rig, rig.w
        self.calls = []
        self.owner = {}
        self.keep = []  # keep created handlers alive so that ids stay unique
        self.other_tx = []
        self.harness_cancelled = set()  # names of tasks the harness itself cancelled
        self.harness_cancel_prefixes = ()
        self.harness_cancel_at = float("inf")  # when the harness cancelled the library's own loops
        p = rig.protocol
        st = rig.spa.struct
        self._orig_get, self._orig_sget, self._orig_qs = p.get, st.get, p.queue_send
        mon = self

        UNSET = object()

        async def get(create_func, destination=None, retry_count=UNSET):
            from geckolib.config import GeckoConfig

            # the configured retry count of a call: what the caller passed, else the library's setting
            explicit = retry_count is not UNSET
            c = mon._start("get", retry_count if explicit else GeckoConfig.PROTOCOL_RETRY_COUNT)
            if explicit and retry_count == 0:
                mon.sh.count("calls_with_retry_count_zero")

            def cf():
                h = create_func()
                mon._created(c, h)
                return h

            try:
                res = await (mon._orig_get(cf, destination, retry_count) if explicit else mon._orig_get(cf, destination))
                c.result = res
                return res
            except BaseException as e:
                c.exc = e
                raise
            finally:
                c.t_return = mon.w.now

        async def sget(protocol, create_func, retry_count=10):
            c = mon._start("struct.get", retry_count)
            if retry_count == 0:
                mon.sh.count("calls_with_retry_count_zero")

            def cf():
                h = create_func()
                mon._created(c, h)
                return h

            try:
                res = await mon._orig_sget(protocol, cf, retry_count)
                c.result = res
                return res
            except BaseException as e:
                c.exc = e
                raise
            finally:
                c.t_return = mon.w.now

        def queue_send(handler, destination=None):
            t = asyncio.current_task()
            rec = (mon.w.now, handler, t.get_name() if t else None, p.isopen)
            c = mon.owner.get(id(handler))
            if c is not None:
                c.tx.append(rec)
            else:
                mon.other_tx.append(rec)
            return mon._orig_qs(handler, destination)

        p.get, st.get, p.queue_send = get, sget, queue_send

    def _start(self, engine, N):
        t = asyncio.current_task()
        c = Call(None, N, self.w.now, t.get_name() if t else None, engine)
        self.calls.append(c)
        return c

    def _created(self, c, h):
        c.creates.append(h)
        self.keep.append(h)
        self.owner[id(h)] = c
        if c.kind is None:
            c.kind = type(h).__name__.replace("Gecko", "").replace("ProtocolHandler", "")

    def detach(self):
        p, st = self.rig.protocol, self.rig.spa.struct
        for obj, name in ((p, "get"), (st, "get"), (p, "queue_send")):
            if obj is not None and name in vars(obj):
                delattr(obj, name)

    # ------------------------------------------------------------------ oracle
    def judge(self, regime, label, e0):
        from geckolib.config import GeckoConfig
        from vlib.aworld import REGIMES

        sh, w = self.sh, self.w
        late = REGIMES[regime][0]
        stalls = w.loop.vsel.injected_stalls
        P = retry_pause()
        POLL = poll()
        q = self.rig.protocol.queue if self.rig.protocol is not None else self._queue
        pops = [ev for ev in q.events[e0:] if ev[0] == "pop"]
        for c in self.calls:
            sh.evaluations += 1
            sent = [x for x in c.tx if x[3]]
            wit = {"engine": c.engine, "kind": c.kind, "retry_count": c.N, "task": c.task, "invoke": round(c.t_invoke, 3), "transmissions": [round(x[0], 3) for x in c.tx], "return": None if c.t_return is None else round(c.t_return, 3), "result": type(c.result).__name__, "regime": regime, "history": label}
            if c.t_return is None:
                sh.violation("C06:caller-never-completes", f"{c.engine} call ({c.kind}) invoked at {c.t_invoke:.2f} never returned", wit)
                continue
            if isinstance(c.exc, BuilderFailed):
                # the caller's own builder failed: the call raises that to its caller; what matters is
                # that everybody else is still served (checked through their own records)
                sh.count("calls_whose_builder_failed")
                if c.tx:
                    sh.violation("C06:raise", "a call whose request builder raised still transmitted", wit)
                continue
            if c.exc is not None and not isinstance(c.exc, asyncio.CancelledError):
                d = describe_exc(c.exc)
                sh.violation("C06:raise", f"{c.engine} raised {d['type']}: {d['msg']}", dict(wit, exc=d))
                continue
            cancelled = isinstance(c.exc, asyncio.CancelledError)
            by_harness = c.task in self.harness_cancelled or (str(c.task).startswith(self.harness_cancel_prefixes or ("\0",)) and c.t_return >= self.harness_cancel_at - 1e-6)
            if cancelled and not by_harness:
                sh.violation("C06:cancelled-unasked", f"{c.engine} call ({c.kind}) ended with CancelledError although nobody cancelled its task {c.task}", wit)
                continue
            if len(c.tx) > c.N:
                sh.violation("C06:too-many-transmissions", f"{len(c.tx)} transmissions with retry count {c.N}", wit)
            if len(c.creates) != len(c.tx) or len(set(map(id, c.creates))) != len(c.creates) or [x[1] for x in c.tx] != c.creates:
                sh.violation("C06:attempt-not-fresh", f"{len(c.creates)} requests built for {len(c.tx)} transmissions (each attempt must be freshly built and sent once)", wit)
            mine = [ev for ev in pops if ev[7] in set(map(id, c.creates)) and c.t_invoke <= ev[2] <= c.t_return]
            if cancelled:
                sh.count("calls_cancelled_by_harness")
            elif c.engine == "get":
                if c.result is not None:
                    ok = c.creates and c.result is c.creates[-1] and any(ev[7] == id(c.result) and ev[6] is True and c.tx and ev[2] >= c.tx[0][0] for ev in mine)
                    if not ok:
                        sh.violation("C06:reply-not-delivered", f"get() returned a {type(c.result).__name__} although no accepted reply was delivered to it", wit)
                    sh.count("calls_answered")
                else:
                    if mine:
                        sh.violation("C06:failure-despite-reply", "get() reported failure although a reply was taken by its handler", wit)
                    sh.count("calls_failed")
                if c.tx:
                    T = max(h._timeout_in_seconds for h in c.creates)
                    dur = c.t_return - c.tx[0][0]
                    bound = c.N * (T + P) + c.N * (POLL + 2 * late + 0.02) + stalls + 0.05
                    sh.maximum(f"max_duration_over_literal_bound_{regime}", round(dur - c.N * (T + P), 3))
                    if dur > bound:
                        sh.violation("C06:duration", f"get() took {dur:.2f}s from its first transmission; bound {c.N}x({T}+{P}) + scheduling latency = {bound:.2f}s", wit)
            else:
                if c.result not in (True, False):
                    sh.violation("C06:struct-get-result", f"struct.get returned {c.result!r}", wit)
            sh.see("caller_kinds", f"{c.engine}:{c.kind}")
        # one request in flight; served in arrival order
        act = sorted([c for c in self.calls if c.tx and c.t_return is not None], key=lambda c: c.tx[0][0])
        for a, b in zip(act, act[1:]):
            if b.tx[0][0] < a.t_return - 1e-9:
                sh.violation("C06:two-in-flight", f"{b.kind} transmitted at {b.tx[0][0]:.3f} while {a.kind} (first sent {a.tx[0][0]:.3f}) was outstanding until {a.t_return:.3f}", {"a": a.kind, "b": b.kind, "regime": regime, "history": label})
        inv = [c for c in self.calls if c.tx]
        for a, b in zip(inv, inv[1:]):  # self.calls is in invocation order
            if b.tx[0][0] < a.tx[0][0] - 1e-9:
                sh.violation("C06:not-arrival-order", f"{b.kind} (invoked {b.t_invoke:.3f}) was served before {a.kind} (invoked {a.t_invoke:.3f})", {"regime": regime, "history": label})
        sh.count("calls_observed", len(self.calls))
        sh.maximum("max_concurrent_callers", self._max_overlap())

    def _max_overlap(self):
        evs = []
        for c in self.calls:
            if c.t_return is not None:
                evs += [(c.t_invoke, 1), (c.t_return, -1)]
        cur = best = 0
        for _, d in sorted(evs):
            cur += d
            best = max(best, cur)
        return best


def reply_faults(r, spec):
    """Net.fault for level 1: loss / delay / duplication of replies (and requests)."""

    def fault(d):
        x = r.random()
        if d.dir == "s2c":
            if x < spec["p_drop"]:
                return []
            if x < spec["p_drop"] + spec["p_late"]:
                return [r.uniform(0.5, spec["late_max"])]
            if x < spec["p_drop"] + spec["p_late"] + spec["p_dup"]:
                return [0.002, 0.002 + r.uniform(0, 0.5)]
        elif x < spec["p_drop_req"]:
            return []
        return None

    return fault


async def malformed_replies(sh, rig, r, regime, label):
    """Not loss, not reordering: the reply that arrives has the right verb but a payload too short to
    decode (a truncated datagram).  Outside the statement's fault list, so the only clause judged is
    the one that does not depend on it: a call must not RETURN A REPLY that was never delivered for
    it - it may raise or report failure.  The genuine replies are dropped for the duration."""
    from geckolib import driver as D
    from vlib.rig import CLIENT_ID, SPA_ID

    w, p, spa = rig.w, rig.protocol, rig.spa
    seq = lambda: p.get_and_increment_sequence_counter(False)  # noqa
    cases = {
        "channel": (lambda: D.GeckoGetChannelProtocolHandler.request(seq(), parms=spa.sendparms), "CURCH", [b"CHCUR", b"CHCUR\x01"], lambda h: h.channel is not None and h.signal_strength is not None),
        "version": (lambda: D.GeckoVersionProtocolHandler.request(seq(), parms=spa.sendparms), "AVERS", [b"SVERS", b"SVERS\x00\x01\x02"], lambda h: getattr(h, "en_build", None) is not None and getattr(h, "co_minor", None) is not None),
        "watercare": (lambda: D.GeckoWatercareProtocolHandler.request(seq(), parms=spa.sendparms), "GETWC", [b"WCGET"], lambda h: h.mode is not None),
    }
    for name, (builder, req_verb, bodies, decoded) in cases.items():
        body = r.choice(bodies)

        def fault(d, req_verb=req_verb, body=body):
            if d.dir == "s2c" and d.verb in ("CHCUR", "SVERS", "WCGET") and d.src == rig.sim.addr and not getattr(d, "_mine", False):
                return []
            if d.dir == "c2s" and d.verb == req_verb:
                x = w.net.inject(b"<PACKT><SRCCN>" + SPA_ID + b"</SRCCN><DESCN>" + CLIENT_ID + b"</DESCN><DATAS>" + body + b"</DATAS></PACKT>", rig.sim.addr, rig.transport, 0.004)
            return None

        # the injected datagram goes through _new() and would be offered to this fault function too;
        # Net.inject sets its fate itself, so it is not - nothing more to do
        w.net.fault = fault
        res, exc = None, None
        try:
            res = await asyncio.wait_for(p.get(builder, None, 2), 60)
        except asyncio.TimeoutError:
            exc = "no return within 60 s"
        except Exception as e:  # noqa - raising is a way of reporting failure here
            exc = f"{type(e).__name__}"
        finally:
            w.net.fault = None
        sh.evaluations += 1
        sh.count("calls_answered_only_by_a_truncated_reply")
        sh.see("truncated_reply_outcomes", f"{name}:{body[5:].hex() or 'empty'}:{exc or ('None' if res is None else 'returned-handler')}")
        if exc == "no return within 60 s":
            sh.violation("C06:caller-never-completes", f"a {name} call answered only by a truncated reply did not return within 60 s", {"kind": name, "reply": body, "regime": regime, "history": label})
        elif res is not None and not decoded(res):
            sh.violation("C06:reply-not-delivered", f"get() returned a {type(res).__name__} as answered although the only reply delivered for it was a truncated {body[:5].decode()} that could not be decoded (its fields are unset)", {"kind": name, "reply": body, "regime": regime, "history": label})
        await rig.quiesce()
    return True


async def level1(sh, rig, r, regime, label):
    from geckolib import driver as D

    w, p, spa = rig.w, rig.protocol, rig.spa
    mon = EngineMonitor(sh, rig)
    e0 = len(p.queue.events)
    spec = {"p_drop": r.choice([0, 0, 0.3, 0.7, 1.0]), "p_late": r.choice([0, 0.2]), "late_max": r.choice([1.0, 5.0]), "p_dup": r.choice([0, 0.2]), "p_drop_req": r.choice([0, 0.2])}
    w.net.fault = reply_faults(r, spec)
    seq = lambda: p.get_and_increment_sequence_counter(False)  # noqa
    kinds = {
        "ping": lambda: p.get(lambda: D.GeckoPingProtocolHandler.request(parms=spa.sendparms), None, 1),
        "version": lambda: p.get(lambda: D.GeckoVersionProtocolHandler.request(seq(), parms=spa.sendparms)),
        "channel": lambda: p.get(lambda: D.GeckoGetChannelProtocolHandler.request(seq(), parms=spa.sendparms), None, r.choice([0, 2, 3, 10])),
        "watercare": lambda: p.get(lambda: D.GeckoWatercareProtocolHandler.request(seq(), parms=spa.sendparms), None, r.choice([1, 4])),
        "reminders": lambda: p.get(lambda: D.GeckoRemindersProtocolHandler.request(seq(), parms=spa.sendparms), None, 3),
        "keypress": lambda: p.get(lambda: D.GeckoPackCommandProtocolHandler.keypress(p.get_and_increment_sequence_counter(True), spa.pack_type, 1, parms=spa.sendparms), None, 2),
        "badbuilder": lambda: p.get(lambda: (_ for _ in ()).throw(BuilderFailed("value out of range for its field")), None, r.choice([1, 3])),
        "refresh": lambda: spa.struct.get(p, lambda: D.GeckoStatusBlockProtocolHandler.request(seq(), 256, r.choice([39, 100, 479]), parms=spa.sendparms), r.choice([1, 3])),
    }
    ncall = r.choice([1, 2, 3, 5, 8, 12])
    tasks = []
    # optionally a steady stream of unrelated (unsolicited) traffic for the whole scenario
    stream = None
    if r.random() < 0.35:
        from vlib.rig import CLIENT_ID, SPA_ID

        period = r.choice([0.04, 0.06, 0.15])
        body = r.choice([b"STATP\x01\x01\x2c\x00\x00", b"QQQQQ", b"RFERR"])

        async def streamer():
            while True:
                w.net.inject(b"<PACKT><SRCCN>" + SPA_ID + b"</SRCCN><DESCN>" + CLIENT_ID + b"</DESCN><DATAS>" + body + b"</DATAS></PACKT>", rig.sim.addr, rig.transport)
                await asyncio.sleep(period)

        stream = asyncio.ensure_future(streamer())
        sh.count("scenarios_with_unrelated_stream")
    # the client's other loops (ping, refresh, tidy, facade update) sleep on the same shared
    # wake-up future as a caller pausing between retries
    bg = []
    if r.random() < 0.6:
        from geckolib.config import config_sleep

        async def other_loop(period):
            while True:
                await config_sleep(period)

        bg = [asyncio.ensure_future(other_loop(r.choice([0.7, 1.3, 3.1, 5.0]))) for _ in range(r.choice([1, 3]))]
        sh.count("scenarios_with_other_sleepers")
    if r.random() < 0.4:
        # the timing profile is switched while callers pause between retries (any pump or blower
        # change does that): pauses are cut short, never restarted - the duration bound stands
        from geckolib.config import set_config_mode

        async def switcher():
            on = False
            while True:
                await asyncio.sleep(r.choice([0.7, 1.1, 1.9, 3.0]))
                on = not on
                try:
                    set_config_mode(on)
                except (AssertionError, AttributeError):
                    pass  # nobody has slept yet

        bg.append(asyncio.ensure_future(switcher()))
        sh.count("scenarios_with_profile_switches_during_pauses")
    for i in range(ncall):
        k = r.choice(list(kinds))
        tasks.append(asyncio.ensure_future(kinds[k]()))
        if r.random() < 0.15:
            # the caller is cancelled by its owner (a wait_for around it, a shutdown) at some point
            # of its life; the others must be served and complete all the same
            victim = tasks[-1]
            when = r.choice(["tick", "tick", 0.001, 0.05, 1.0, 4.5])
            if when == "tick":
                await asyncio.sleep(0)
            else:
                await asyncio.sleep(when)
            if not victim.done():
                mon.harness_cancelled.add(victim.get_name())
                victim.cancel()
                sh.count("callers_cancelled_by_owner")
        if r.random() < 0.5:
            await asyncio.sleep(r.choice([0, 0, 0.05, 0.3, 2.0, 7.0]))
        if r.random() < 0.1:
            # a reply of the wrong verb shows up first
            from vlib.rig import CLIENT_ID, SPA_ID

            w.net.inject(b"<PACKT><SRCCN>" + SPA_ID + b"</SRCCN><DESCN>" + CLIENT_ID + b"</DESCN><DATAS>CHCUR\x01\x02</DATAS></PACKT>", rig.sim.addr, rig.transport)
    close_at_end = r.random() < 0.25
    if close_at_end:
        await asyncio.sleep(r.choice([0.0, 0.5, 3.0]))
        mon._queue = p.queue
        rig.transport.close()  # the endpoint goes away under the callers
        sh.count("transport_lost_under_callers")
    # every caller must complete within the sum of the bounds
    budget = sum((c.N if c.N else 10) for c in mon.calls) * 6.5 + ncall * 70 + 30
    done, pending = await asyncio.wait(tasks, timeout=budget)
    for t in pending:
        mon.harness_cancelled.add(t.get_name())
        t.cancel()
    if stream is not None:
        stream.cancel()
    for t in bg:
        if t.done() and not t.cancelled() and t.exception() is not None:
            sh.violation("C06:other-sleeper-raised", f"a task looping on config_sleep ended with {t.exception()!r} while callers were pausing between retries", {"history": label})
        elif t.done():
            sh.violation("C06:other-sleeper-raised", "a task looping on config_sleep was cancelled although nobody cancelled it", {"history": label})
        t.cancel()
    w.net.fault = None
    mon.judge(regime, label, e0)
    mon.detach()
    sh.nontrivial(f"L1:{label}:{ncall}:{spec['p_drop']}:{close_at_end}")
    if len(sh.samples) < 2:
        sh.sample({"level": 1, "callers": [c.kind for c in mon.calls], "reply_script": spec, "transport_closed": close_at_end})
    return not close_at_end


async def level2(sh, rig, r, regime, label):
    """Ping, refresh and facade-update loops + user commands through healthy/blackout phases."""
    from geckolib.automation import GeckoAsyncFacade
    from geckolib.config import GeckoConfig

    w, p, spa = rig.w, rig.protocol, rig.spa
    mon = EngineMonitor(sh, rig)
    e0, d0 = len(p.queue.events), len(w.net.dgrams)
    api_calls = []  # (name, t_invoke, gate_open, task, t_return)
    ping_evidence = [w.now]

    def gate_open():
        last = ping_evidence[0]
        for ev in reversed(p.queue.events):
            if ev[0] == "pop" and ev[4] == "GeckoPingProtocolHandler" and ev[6]:
                last = max(last, ev[2])
                break
        return spa.is_connected and (w.now - last) < 2 * GeckoConfig.PING_FREQUENCY_IN_SECONDS

    def wrap(name):
        orig = getattr(spa, name)

        async def wrapper(*a, **k):
            t = asyncio.current_task()
            rec = [name, w.now, gate_open(), t.get_name() if t else None, None]
            api_calls.append(rec)
            try:
                return await orig(*a, **k)
            finally:
                rec[4] = w.now

        setattr(spa, name, wrapper)

    for n in ("async_press", "_on_async_set_value", "async_get_watercare", "async_set_watercare", "async_get_reminders"):
        wrap(n)
    # restart the loops that SpaRig.connect(background=True) left running is not needed: they run
    facade = GeckoAsyncFacade(spa, rig.taskman)
    blackout = {"on": False}

    def fault(d):
        if blackout["on"] is True:
            return []
        if blackout["on"] == "pings" and d.verb == "APING" and d.dir == "s2c":
            return []  # only the ping answers are lost: everything else still gets through
        return None

    w.net.fault = fault
    users = []
    phases = [("healthy", r.choice([5, 30, 70])), ("blackout", r.choice([20, 150, 400])), ("healthy", r.choice([10, 140]))]
    if r.random() < 0.4:
        phases[1] = ("ping-outage", r.choice([150, 300, 400]))
    elif r.random() < 0.3:
        # RF fault: the in.touch2 module answers EVERYTHING, pings included, with RFERR (the simulator's
        # own rferr mode) - traffic arrives all the time, but no ping is answered
        phases[1] = ("rferr-outage", r.choice([150, 300, 400]))
    if r.random() < 0.3:
        # a client whose handler of ONE ping-received announcement takes minutes (a UI thread stuck):
        # the answer it announces is as old as it is, however late the handler returns
        phases = [("healthy", 70), ("ping-outage", 420), ("healthy", 10)]
        slow = {"left": 1}

        def slow_ping(ev):
            if getattr(ev, "name", str(ev)) == "RUNNING_PING_RECEIVED" and slow["left"] > 0:
                slow["left"] -= 1
                sh.count("ping_received_handlers_suspended_for_minutes")
                return r.choice([200, 250, 300])
            return None

        rig.event_delay = slow_ping
    from geckolib.driver import GeckoPartialStatusBlockProtocolHandler as _P
    from vlib.rig import CLIENT_ID as _CID
    from vlib.rig import SPA_ID as _SID

    _parms = (rig.transport.local[0], rig.transport.local[1], _CID, _SID)
    for name, dur in phases:
        blackout["on"] = True if name == "blackout" else ("pings" if name == "ping-outage" else False)
        rig.sim.sim._do_rferr = name == "rferr-outage"
        t_end = w.now + dur
        sh.see("phases", name)
        switch_at = w.now + r.choice([3.0, 6.0, 15.0]) if (name == "blackout" and r.random() < 0.6) else None
        while w.now < t_end:
            await asyncio.sleep(r.choice([0.3, 1.0, 5.0, 11.0]))
            if switch_at is not None and w.now >= switch_at:
                # the timing profile changes in the middle of the outage (a pump echo processed just
                # before it, a second facade in the process): the "answering pings" window is the
                # current profile's from now on
                from geckolib.config import set_config_mode

                set_config_mode(GeckoConfig.PING_FREQUENCY_IN_SECONDS >= 10)
                switch_at = None
                sh.count("profile_switches_during_an_outage")
            if name == "ping-outage" and r.random() < 0.5:
                # the spa goes on pushing status (a top-side key press, another client's command)
                pos_ = r.randrange(300, 400)
                ch_ = [(pos_, bytes([r.randrange(256), r.randrange(256)]))]
                b_ = bytearray(rig.sim.block)
                b_[pos_ : pos_ + 2] = ch_[0][1]
                rig.sim.set_block(bytes(b_))
                rig.sim.say(_P.report_changes(rig.sim.sock, ch_, parms=_parms), _parms)
                sh.count("status_pushed_while_pings_go_unanswered")
            k = r.choice(["press", "set", "getwc", "rem", "none"])
            if k == "press":
                users.append(asyncio.ensure_future(spa.async_press(r.choice([1, 2, 16]))))
            elif k == "set":
                users.append(asyncio.ensure_future(spa._on_async_set_value(r.randrange(300, 400), 1, r.randrange(256))))
            elif k == "getwc":
                users.append(asyncio.ensure_future(spa.async_get_watercare()))
            elif k == "rem":
                users.append(asyncio.ensure_future(spa.async_get_reminders()))
    blackout["on"] = False
    rig.sim.sim._do_rferr = False
    rig.event_delay = None
    done, pending = await asyncio.wait(users, timeout=800) if users else (set(), set())
    for t in pending:
        mon.harness_cancelled.add(t.get_name())
        t.cancel()
    mon.harness_cancel_prefixes = ("SPA:", "FACADE:")
    mon.harness_cancel_at = w.now
    rig.taskman.cancel_key_tasks("FACADE")
    rig.taskman.cancel_key_tasks("SPA")
    await asyncio.sleep(0.2)
    w.net.fault = None
    # engine clauses over everything that went through get()/struct.get (cancelled loops excluded)
    mon.calls = [c for c in mon.calls if c.t_return is not None or not (c.task or "").startswith(("SPA:", "FACADE:")) or True]
    for c in mon.calls:
        if c.t_return is None and (c.task or "").startswith(("SPA:Ping", "SPA:Refresh", "FACADE:")):
            c.t_return = w.now  # the loop was cancelled by the harness at the end
            c.exc = asyncio.CancelledError()
    mon.judge(regime, label, e0)
    # gate clause
    gated = [x for x in mon.other_tx]  # not used; gated datagrams come from owned calls
    closed_calls = 0
    for name, t0, gopen, task, t1 in api_calls:
        sh.evaluations += 1
        if t1 is None:
            t1 = w.now
        sent = [c for c in mon.calls if c.task == task and t0 - 1e-9 <= c.t_invoke <= t1 + 1e-9 and c.tx]
        if not gopen:
            closed_calls += 1
            if sent:
                sh.violation("C06:gate", f"{name} invoked at {t0:.1f} while the spa was not connected / not answering pings still transmitted {sum(len(c.tx) for c in sent)} datagram(s)", {"api": name, "invoke": round(t0, 2), "task": task, "history": label})
    sh.count("api_calls_gate_closed", closed_calls)
    sh.see("timing_profiles", "active" if GeckoConfig.PING_FREQUENCY_IN_SECONDS < 10 else "idle")
    if GeckoConfig.PING_FREQUENCY_IN_SECONDS < 10:
        sh.count("api_calls_gate_closed_active_profile", closed_calls)
    sh.count("api_calls", len(api_calls))
    # every gated datagram on the wire belongs to an admitted API call
    for c in mon.calls:
        if not c.tx or c.kind is None:
            continue
        verb = c.tx[0][1].send_bytes
        vb = verb[verb.find(b"<DATAS>") + 7 :][:5].decode("latin1")
        if vb in GATED_VERBS:
            owner = [a for a in api_calls if a[3] == c.task and a[1] - 1e-9 <= c.t_invoke <= (a[4] if a[4] is not None else w.now) + 1e-9]
            if not owner:
                sh.violation("C06:gate-unowned", f"a {vb} datagram was sent outside any gated API call", {"task": c.task, "history": label})
            elif not owner[-1][2]:
                pass  # already reported by the gate clause above
            sh.count("gated_datagrams_attributed")
    mon.detach()
    await facade.disconnect()
    sh.nontrivial(f"L2:{label}:{[p_[1] for p_ in phases]}")
    if len(sh.samples) < 3:
        sh.sample({"level": 2, "phases": phases, "api_calls": len(api_calls), "gate_closed_calls": closed_calls, "engine_calls": len(mon.calls)})


def shard(sh: Shard, seed, wseed, regime, n1, n2):
    from vlib.aworld import ScenarioHang, Watchdog, World
    from vlib.rig import SpaRig

    def scenario(level, idx):
        r = rng("C06", seed, wseed, level, idx)
        w = World(r, "B", max_iter=8_000_000, wall_cap=900)
        label = f"{seed}:{wseed}:{level}:{idx}"
        try:
            # level 2, odd scenarios: a snapshot with a pump running, so the facade selects the
            # active timing profile (ping every 2 s: the "answering pings" window is 4 s, not 120 s)
            active = level == 2 and idx % 2 == 1
            rig = SpaRig(w, snapshot="inYT-Pump1Lo-2020-12-13 11_19_35.snapshot") if active else SpaRig(w)

            async def main():
                if not await rig.connect(background=(level == 2)):
                    sh.inconc("rig could not connect")
                    return
                w.set_regime(regime)
                if level == 1:
                    for rep in range(4):
                        if not await level1(sh, rig, r, regime, f"{label}.{rep}"):
                            break
                        await rig.quiesce()
                    if idx % 3 == 0 and rig.protocol is not None and rig.protocol.isopen:
                        await malformed_replies(sh, rig, r, regime, label)
                else:
                    await level2(sh, rig, r, regime, label)

            try:
                w.run(main())
            except ScenarioHang:
                sh.inconc("scenario hang")
            except Watchdog as e:
                sh.inconc(f"watchdog {e}")
            except Exception as e:
                d = describe_exc(e)
                if d["where"] == "repo":
                    sh.violation("C06:raise", f"{d['type']}: {d['msg']}", d)
                else:
                    raise
        finally:
            w.close()

    for i in range(n1):
        scenario(1, i)
    for i in range(n2):
        scenario(2, i)


def main(tier, seed):
    run = Run("C06", tier, seed, "exploration")
    n1, n2 = (16, 4) if tier == "quick" else (400, 100)
    regs = ["B", "J", "H", "J"]
    jobs = [{"seed": seed, "wseed": i, "regime": regs[i % 4], "n1": n1, "n2": n2} for i in range(NCPU)]
    run.absorb(run_shards("checks.c06", "shard", jobs, timeout=3000))
    run.need(run.counters.get("calls_answered", 0) > 300 and run.counters.get("calls_failed", 0) > 50, "too few answered/failed calls")
    run.need(run.counters.get("api_calls_gate_closed", 0) > 10, "the gate was hardly ever closed at an API call")
    run.need(run.counters.get("api_calls_gate_closed_active_profile", 0) > 5, "the gate was hardly ever closed at an API call under the active timing profile")
    run.need(run.counters.get("calls_whose_builder_failed", 0) > 10, "too few calls whose request builder failed")
    run.need(run.counters.get("profile_switches_during_an_outage", 0) > 5, "the timing profile was hardly ever switched during an outage")
    run.need(run.counters.get("callers_cancelled_by_owner", 0) > 10, "too few callers cancelled by their owner")
    run.need(run.counters.get("gated_datagrams_attributed", 0) > 20, "too few gated datagrams observed")
    run.need(run.maxima.get("max_concurrent_callers", 0) >= 8, "never 8 or more concurrent callers")
    run.need(run.counters.get("transport_lost_under_callers", 0) > 3, "transport loss under callers not exercised")
    run.need(run.counters.get("scenarios_with_unrelated_stream", 0) > 10, "no scenario with a steady stream of unrelated traffic")
    return run.finish(
        rule="level 1: 1-12 concurrent callers of seven kinds (ping retry 1, version, channel, watercare, reminders, key press, ranged refresh) with drawn arrival gaps against reply loss (0..100%), late replies (up to 5 s), duplicates, request loss, wrong-verb replies and loss of the endpoint under the callers; level 2: ping/refresh/facade-update loops plus user commands through healthy-blackout-healthy phases; regimes B/J/H; one evaluation = one engine call or one gated API call; distinct = distinct scenarios",
        assumptions=["duration bound = retry count x (timeout + pause) plus measured scheduling latency (one poll and two timer latenesses per attempt, injected stalls)", "'answering pings' is judged by the monitor from queue pops of ping replies: last reply (or ping-loop start) younger than 2 x PING_FREQUENCY", "retries of an already admitted request during a later outage are what the code does and are not flagged"],
    )


def replay(path):
    from vlib.common import replay_args

    return main(*replay_args(path))
