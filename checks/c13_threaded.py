"""C13, threaded facade: the blocking command API of the real GeckoFacade against
ModelSpa under the baton scheduler (same oracle as the async part)."""
from __future__ import annotations

import os

from checks.c12 import REF_DEVICES
from checks.c13 import inner, parse_spack, snapshot_files
from vlib import tables
from vlib.common import NCPU, Shard, describe_exc, rng, run_shards


def scenario(sh: Shard, seed, idx, snap, ncmd):
    from vlib.modelspa import make_model_class
    from vlib.trig import TRig
    from vlib.vthreads import Deadlock, Stuck

    r = rng("C13t", seed, idx)
    tables.install_decl_capture()
    rig = TRig(r, snapshot=snap, sim_cls=make_model_class())
    label = f"T:{seed}:{idx}:{os.path.basename(snap)[:30]}"
    try:
        if not rig.connect(facade=True, timeout=90):
            sh.inconc("threaded facade did not connect")
            return
        spa, facade, s = rig.spa, rig.facade, rig.s
        s.run_until(lambda: facade.water_care.active_mode is not None, 30)
        rig.quiesce()
        refs = {t: tables.ref_of(a) for t, a in spa.accessors.items() if hasattr(a, "_verif_decl")}

        def run_cmd(desc, fn, expect):
            rig.quiesce(settle=0.3)
            n0 = len(rig.net.log)
            before = rig.sim_block
            exc = None
            # now and then the spa's echo of the command is lost; the client's periodic refresh (run
            # here explicitly) repairs its copy - and nothing learnt earlier may come back afterwards
            lose_echo = expect is not None and expect.get("verb") in ("SET", "KEY") and r.random() < 0.12
            if lose_echo:
                st_ = {"n": 0}

                def fault(rec):
                    if rec["verb"] == "STATP" and rec["dst"] == rig.client_sock.addr and st_["n"] == 0:
                        st_["n"] = 1
                        return []
                    return None

                rig.net.fault = fault
            try:
                fn()
            except Exception as e:
                exc = e
            rig.quiesce(settle=0.35)
            if lose_echo:
                rig.net.fault = None
                type(spa).refresh(spa)
                rig.quiesce(settle=0.5, limit=40)
                sh.count("threaded_commands_with_lost_echo_then_refresh")
                expect = dict(expect)
                expect.pop("readback", None) if st_["n"] and spa.struct.status_block != rig.sim_block else None
            if expect is not None and exc is None:
                # the client's copy mirrors the spa's block once the echo (or the refresh) is in
                if spa.struct.status_block[256:735] != rig.sim_block[256:735]:
                    bad = [i for i in range(256, 735) if spa.struct.status_block[i] != rig.sim_block[i]][:6]
                    sh.violation("C13:threaded:mirror-after-echo", f"{desc}: after the echo{' was lost and the refresh ran' if lose_echo else ''} the client's block differs from the spa's at {bad}", {"scenario": label, "command": desc, "lost_echo": lose_echo})
            sent = [x for x in rig.c2s(n0) if x["verb"] in ("SPACK", "SETWC")]
            sh.evaluations += 1
            wit = {"scenario": label, "command": desc, "sent": [inner(x["data"]) for x in sent]}
            if exc is not None:
                d = describe_exc(exc)
                sh.violation(f"C13:threaded:raise:{desc[0]}", f"{desc}: raised {d['type']}: {d['msg']}", dict(wit, exc=d))
                return
            if expect is None:
                sh.count("threaded_idempotent_calls_checked")
                if sent:
                    sh.violation(f"C13:threaded:not-idempotent:{desc[0]}", f"{desc}: already in the requested state but {len(sent)} command datagram(s) were sent", wit)
                return
            if len(sent) != 1:
                sh.violation(f"C13:threaded:command-count:{desc[0]}", f"{desc}: {len(sent)} command datagrams sent, expected exactly one", wit)
                return
            c = inner(sent[0]["data"])
            sh.count("threaded_commands_checked")
            if expect["verb"] == "SETWC":
                if not c.startswith(b"SETWC") or len(c) != 7 or c[6] != expect["mode"] or not (1 <= c[5] <= 191):
                    sh.violation("C13:threaded:watercare-command", f"{desc}: SETWC {c!r} (expected mode {expect['mode']}, sequence 1..191)", wit)
                if rig.sim.watercare_mode != expect["mode"] or facade.water_care.mode != expect["mode"]:
                    sh.violation("C13:threaded:watercare-effect", f"{desc}: spa mode {rig.sim.watercare_mode}, facade mode {facade.water_care.mode}", wit)
                return
            if not c.startswith(b"SPACK"):
                sh.violation(f"C13:threaded:wrong-verb:{desc[0]}", f"{desc}: sent {c[:5]!r}", wit)
                return
            p = parse_spack(c)
            wit["decoded"] = {k: (v.hex() if isinstance(v, bytes) else v) for k, v in p.items()}
            if not (192 <= p["seq"] <= 255):
                sh.violation("C13:threaded:sequence-range", f"{desc}: pack command carries sequence {p['seq']} (command range is 192..255)", wit)
            if p["pack_type"] != spa.pack_type:
                sh.violation("C13:threaded:pack-type", f"{desc}: pack type {p['pack_type']} != connected pack {spa.pack_type}", wit)
            if expect["verb"] == "KEY":
                if p["kind"] != "KEY" or p["key"] != expect["key"]:
                    sh.violation(f"C13:threaded:keypress:{desc[0]}", f"{desc}: expected key press {expect['key']}, got {p}", wit)
            else:
                ref = expect["ref"]
                if p["kind"] != "SET" or (p["cfg"], p["log"]) != (spa.config_version, spa.log_version):
                    sh.violation("C13:threaded:versions", f"{desc}: kind {p['kind']} cfg/log {(p.get('cfg'), p.get('log'))} != {(spa.config_version, spa.log_version)}", wit)
                    return
                if p["pos"] != ref.pos or len(p["data"]) != ref.width:
                    sh.violation(f"C13:threaded:write-geometry:{desc[0]}", f"{desc}: write at {p['pos']} of {len(p['data'])} byte(s), item {ref.tag} is at {ref.pos} width {ref.width}", wit)
                    return
                nb = before[: p["pos"]] + p["data"] + before[p["pos"] + len(p["data"]) :]
                got = ref.decode(nb, units=expect.get("units"))
                if not expect["check"](got):
                    sh.violation(f"C13:threaded:write-value:{desc[0]}", f"{desc}: applied to the spa's block the write makes {ref.tag} read {got!r}", wit)
                ow, nw = int.from_bytes(before[ref.pos : ref.pos + ref.width], "big"), int.from_bytes(p["data"], "big")
                if (ow ^ nw) & ~ref.field_mask:
                    sh.violation(f"C13:threaded:write-clobbers:{desc[0]}", f"{desc}: the write changes bits outside {ref.tag}", wit)
            if "readback" in expect:
                rb = expect["readback"]()
                if not expect["readback_ok"](rb):
                    sh.violation(f"C13:threaded:readback:{desc[0]}", f"{desc}: after the spa's echo the facade reads {rb!r}", wit)
                else:
                    sh.count("threaded_readbacks_ok")

        devices = [("pump", x) for x in facade.pumps] + [("blower", x) for x in facade.blowers] + [("light", x) for x in facade.lights]
        if facade.eco_mode is not None:
            devices.append(("eco", facade.eco_mode))
        heater = facade.water_heater
        for step in range(ncmd):
            k = r.choice(["watercare", "temp", "unit"] + (["device"] * 4 if devices else []))
            if k == "device":
                typ, dev = r.choice(devices)
                sh.see("threaded_device_kinds", typ)
                if typ == "pump":
                    mode = r.choice([m for m in dict.fromkeys(dev.modes) if m != ""])
                    ud = dev._user_demand["demand"]
                    run_cmd(("pump.set_mode", dev.key, mode), lambda d=dev, m=mode: d.set_mode(m), {"verb": "SET", "ref": refs[ud], "check": lambda v, m=mode: v == m, "readback": lambda a=spa.accessors[ud]: a.value, "readback_ok": lambda v, m=mode: v == m})
                else:
                    want = r.random() < 0.5
                    is_on = bool(dev.is_on)
                    desc = (f"{typ}.turn_{'on' if want else 'off'}", dev.key, f"was_{'on' if is_on else 'off'}")
                    fn = dev.turn_on if want else dev.turn_off
                    if is_on == want:
                        run_cmd(desc, fn, None)
                    elif typ == "eco":
                        run_cmd(desc, fn, {"verb": "SET", "ref": refs["EconActive"], "check": lambda v, w=want: v == w, "readback": lambda d=dev: bool(d.is_on), "readback_ok": lambda v, w=want: v == w})
                    else:
                        run_cmd(desc, fn, {"verb": "KEY", "key": REF_DEVICES[dev.key][1], "readback": lambda d=dev: bool(d.is_on), "readback_ok": lambda v, w=want: v == w})
            elif k == "watercare":
                mode = r.randrange(0, 5)
                arg = mode if r.random() < 0.5 else facade.water_care.modes[mode]
                run_cmd(("watercare.set_mode", arg), lambda a=arg: facade.water_care.set_mode(a), {"verb": "SETWC", "mode": mode})
            elif k == "temp" and heater.is_present and "SetpointG" in refs:
                units = refs["TempUnits"].decode(spa.struct.status_block)
                t, st = (r.choice([15, 40, 26.5, r.randrange(270, 721) / 18.0]), 1 / 18.0) if units == "C" else (r.choice([59, 104, 98.6, (r.randrange(270, 721) + 320) / 10.0]), 0.1)
                run_cmd(("heater.set_target_temperature", t, units), lambda t=t: heater.set_target_temperature(t), {"verb": "SET", "ref": refs["SetpointG"], "units": units, "check": lambda v, t=t, st=st: abs(v - t) < st + 1e-9, "readback": lambda: heater.target_temperature, "readback_ok": lambda v, t=t, st=st: abs(v - t) < st + 1e-9})
            elif k == "unit" and r.random() < 0.35 and heater.is_present and "SetpointG" in refs:
                # two set-point commands back to back, nobody waits for the echo of the first (a slider
                # being dragged): the spa receives them in the order given and ends on the LAST one
                units = refs["TempUnits"].decode(spa.struct.status_block)
                lo_, hi_, st = (15, 40, 1 / 18.0) if units == "C" else (59, 104, 0.1)
                t1, t2 = round(r.uniform(lo_, hi_), 1), round(r.uniform(lo_, hi_), 1)
                if abs(t1 - t2) < 2 * st:
                    t2 = lo_ if t1 > (lo_ + hi_) / 2 else hi_
                rig.quiesce(settle=0.3)
                n0 = len(rig.net.log)
                ref = refs["SetpointG"]
                heater.set_target_temperature(t1)
                heater.set_target_temperature(t2)
                rig.quiesce(settle=0.4)
                sent = [x for x in rig.c2s(n0) if x["verb"] == "SPACK"]
                sh.evaluations += 1
                sh.count("threaded_back_to_back_setpoints")
                wit = {"scenario": label, "command": ("set_target_temperature x2", t1, t2, units), "sent": [x["data"][x["data"].find(b"<DATAS>") + 7 : -16].hex() for x in sent]}
                vals = []
                for x in sent:
                    c_ = x["data"][x["data"].find(b"<DATAS>") + 7 : x["data"].rfind(b"</DATAS>")]
                    vals.append(int.from_bytes(c_[-2:], "big"))
                conv = (lambda v: v / 18.0) if units == "C" else (lambda v: (v + 320) / 10.0)
                if len(sent) != 2:
                    sh.violation("C13:threaded:command-count:heater.set_target_temperature", f"two set-point commands back to back, {len(sent)} command datagrams sent", wit)
                elif not (abs(conv(vals[0]) - t1) < st + 1e-9 and abs(conv(vals[1]) - t2) < st + 1e-9):
                    sh.violation("C13:threaded:command-order", f"set points {t1} then {t2} were commanded back to back; the spa received {[round(conv(v), 2) for v in vals]} in that order", wit)
                elif abs(ref.decode(rig.sim_block, units=units) - t2) > st + 1e-9 or abs(heater.target_temperature - t2) > st + 1e-9:
                    sh.violation("C13:threaded:readback:heater.set_target_temperature", f"after set points {t1} then {t2} the spa holds {ref.decode(rig.sim_block, units=units):.2f} and the client reads {heater.target_temperature:.2f}", wit)
                else:
                    sh.count("threaded_commands_checked", 2)
            elif k == "unit" and "TempUnits" in refs:
                u = r.choice(["C", "F", "°F", "f"])
                want = "F" if u in ("°F", "f", "F") else "C"
                run_cmd(("heater.set_temperature_unit", u), lambda u=u: heater.set_temperature_unit(u), {"verb": "SET", "ref": refs["TempUnits"], "check": lambda v, w=want: v == w, "readback": lambda: heater.temperature_unit, "readback_ok": lambda v, w=want: v == ("°F" if w == "F" else "°C")})
        sh.nontrivial(label)
    except (Deadlock, Stuck) as e:
        sh.inconc(f"{type(e).__name__}: {e}")
    except Exception as e:
        d = describe_exc(e)
        if d["where"] == "repo":
            sh.violation("C13:threaded:raise", f"{d['type']}: {d['msg']}", d)
        else:
            raise
    finally:
        rig.close()


def shard(sh: Shard, seed, lo, hi, ncmd, snaps):
    for idx in range(lo, hi):
        # one long-lived connection per run: enough commands for the command counter to wrap twice
        scenario(sh, seed, idx, snaps[(idx * 7 + 3) % len(snaps)], 170 if idx == 0 else ncmd)
        if idx == 0:
            sh.count("threaded_long_connection_scenarios")


def add(run, tier, seed):
    snaps = snapshot_files()
    per, ncmd = (3, 12) if tier == "quick" else (80, 20)
    jobs = [{"seed": seed, "lo": i * per, "hi": (i + 1) * per, "ncmd": ncmd, "snaps": snaps} for i in range(NCPU)]
    run.absorb(run_shards("checks.c13_threaded", "shard", jobs, timeout=3000))
    run.need(run.counters.get("threaded_commands_checked", 0) > 100, "threaded facade: too few commands checked")
    run.need(run.counters.get("threaded_idempotent_calls_checked", 0) > 10, "threaded facade: too few already-in-state calls")
    run.need(run.counters.get("threaded_commands_with_lost_echo_then_refresh", 0) >= 5, "threaded facade: no command whose echo was lost and repaired by a refresh")
    run.need(run.counters.get("threaded_long_connection_scenarios", 0) >= 1, "threaded facade: the long-lived connection scenario did not run")
    run.need(run.counters.get("threaded_back_to_back_setpoints", 0) >= 10, "threaded facade: no two set-point commands back to back")
