"""C01 - status-block transfer installs the spa's bytes or nothing, under any faults.

Async part: a real GeckoAsyncSpa connected to the real simulator in the virtual world;
struct.get() is driven for generated (start, length) under enumerated and drawn fault
scripts.  Monitors: the client block before/after, every replace_status_block_segment
call during the transfer, STATU datagrams on the wire, queue pops (self-inflicted
discards), the return value.  Threaded part: see c01_threaded (baton scheduler).
"""
from __future__ import annotations

import asyncio

from vlib.common import NCPU, Run, Shard, describe_exc, rng, run_shards

SEG = 39


def seg_info(data: bytes):
    i = data.find(b"<DATAS>")
    inner = data[i + 7 :]
    return inner[:5], inner[5], inner[6]  # verb, idx, next


def nseg(length):
    return -(-length // SEG)


class CaseFault:
    """Fault script of one transfer; installed as Net.fault for its duration."""

    def __init__(self, spec, r):
        self.spec, self.r = spec, r
        self.attempt = 0
        self.hit = 0  # how many datagrams of the transfer were actually affected
        self.dropped = 0

    def __call__(self, d):
        k = self.spec["kind"]
        if d.dir == "c2s":
            if d.verb == "STATU":
                self.attempt += 1
                if k == "drop-req" and self.attempt in self.spec["attempts"]:
                    self.hit += 1
                    self.dropped += 1
                    return []
                if k == "dup-req" and self.attempt in self.spec["attempts"]:
                    self.hit += 1
                    return [0.001, 0.002 + self.spec.get("gap", 0.0)]
                if k == "random" and self.r.random() < self.spec["p_drop_req"]:
                    self.hit += 1
                    self.dropped += 1
                    return []
                if k == "blackout":
                    self.hit += 1
                    self.dropped += 1
                    return []
            return None
        if d.verb != "STATV":
            return None
        verb, idx, nxt = seg_info(d.data)
        if k == "blackout":
            self.hit += 1
            return []
        att_ok = self.attempt in self.spec.get("attempts", [])
        if k == "drop-seg" and att_ok and idx == self.spec["idx"]:
            self.hit += 1
            self.dropped += 1
            return []
        if k == "drop-seg-seq" and self.attempt <= len(self.spec["idxs"]) and idx == self.spec["idxs"][self.attempt - 1]:
            self.hit += 1
            self.dropped += 1
            return []
        if k == "drop-last" and att_ok and nxt == 0:
            self.hit += 1
            self.dropped += 1
            return []
        if k == "dup-seg" and att_ok and idx == self.spec["idx"]:
            self.hit += 1
            return [0.001, 0.001 + self.spec.get("gap", 0.004)]
        if k == "swap" and att_ok and idx == self.spec["idx"]:
            self.hit += 1
            return [0.001 + 0.032]  # lands after the following segment (20.5 ms pacing)
        if k == "random":
            x = self.r.random()
            sp = self.spec
            if self.attempt > sp.get("until_attempt", 10**9):
                return None
            if x < sp["p_drop"]:
                self.hit += 1
                self.dropped += 1
                return []
            if x < sp["p_drop"] + sp["p_dup"]:
                self.hit += 1
                return [0.001, 0.001 + self.r.uniform(0, sp["max_delay"])]
            if x < sp["p_drop"] + sp["p_dup"] + sp["p_delay"]:
                self.hit += 1
                return [0.001 + self.r.uniform(0, sp["max_delay"])]
        return None


TAGS = [b"</DATAS>", b"<DATAS>", b"</PACKT>", b"<PACKT>", b"</SRCCN>", b"<DESCN>", b"</DESCN><DATAS>", b"STATV", b"\n", b"</DATAS></PACKT>", b"</DATAS></PACKT><PACKT><SRCCN>"]


def make_blocks(r, style):
    if style == "pattern":
        S = bytes((i * 7 + i // SEG * 3 + 1) % 251 for i in range(1024))
    else:
        S = bytes(r.randrange(256) for _ in range(1024))
    if style == "tags":
        # the spa's bytes may spell the protocol's own delimiters, inside one segment or across two
        S = bytearray(S)
        for _ in range(r.randrange(2, 7)):
            t = r.choice(TAGS)
            at = r.randrange(0, 1024 - len(t))
            S[at : at + len(t)] = t
        S = bytes(S)
    B0 = bytes((S[i] + 1 + r.randrange(254)) % 256 for i in range(1024))
    return S, B0


async def one_case(sh: Shard, rig, case, r, regime):
    from geckolib.driver import GeckoStatusBlockProtocolHandler

    w, spa, sim = rig.w, rig.spa, rig.sim
    start, length, N = case["start"], case["length"], case["retries"]
    S, B0 = make_blocks(r, case.get("blocks", "random"))
    varying = case.get("varying", False)
    spa.struct.set_status_block(B0)
    sim.set_block(S)
    versions = [S]
    fault = CaseFault(case["fault"], r)
    w.net.fault = fault
    if case["fault"]["kind"] == "sim-reliability":
        # the bundled simulator's own "reliability" setting (its shell command): it decides per
        # datagram, with the global random module - seeded here so that the case replays
        import random as _random

        _random.seed(case["seed"])
        sim.sim._reliability = case["fault"]["factor"]
        fault.hit = 1
    installs = []
    orig = spa.struct.replace_status_block_segment

    def tapped(offset, segment):
        installs.append((offset, len(segment), w.now))
        return orig(offset, segment)

    spa.struct.replace_status_block_segment = tapped
    if varying:

        def on_rx(data, src):
            if b"<DATAS>STATU" in data:
                k = len(versions)
                nb = bytes((S[i] + 37 * k + i // SEG) % 256 for i in range(1024))
                versions.append(nb)
                sim.set_block(nb)

        sim.on_receive = on_rx
    d0 = len(w.net.dgrams)
    q = rig.protocol.queue
    e0 = len(q.events)
    made = []

    def create():
        h = GeckoStatusBlockProtocolHandler.request(rig.protocol.get_and_increment_sequence_counter(False), start, length, parms=spa.sendparms)
        made.append(h)
        return h

    t0 = w.now
    exc = None
    ret = None
    try:
        ret = await spa.struct.get(rig.protocol, create, N)
    except Exception as e:  # the statement says: succeeds or fails
        exc = e
    finally:
        try:
            del spa.struct.replace_status_block_segment
        except AttributeError:
            pass
        sim.on_receive = None
        sim.sim._reliability = 1.0
    t1 = w.now
    after = spa.struct.status_block
    statu = [d for d in w.net.dgrams[d0:] if d.dir == "c2s" and d.verb == "STATU"]
    discards = [e for e in q.events[e0:] if e[0] == "pop" and e[4] == "GeckoUnhandledProtocolHandler" and e[3] and e[3].startswith(b"STATV")]
    w.net.fault = None
    sh.evaluations += 1
    fk = case["fault"]["kind"]
    wit = {"start": start, "length": length, "retries": N, "fault": case["fault"], "regime": regime, "returned": ret, "statu_sent": len(statu), "installs": installs, "fault_hits": fault.hit, "varying_block": varying, "duration": round(t1 - t0, 3), "case_seed": case["seed"]}
    if exc is not None:
        d = describe_exc(exc)
        sh.violation("C01:async:raise", f"struct.get raised {d['type']}: {d['msg']}", dict(wit, exc=d))
        return
    if len(statu) > N or len(made) != len(statu):
        sh.violation("C01:async:too-many-requests", f"{len(statu)} STATU requests on the wire ({len(made)} built) with retry count {N}", wit)
    if len(after) != 1024:
        sh.violation("C01:async:block-size", f"client block is {len(after)} bytes after the transfer", wit)
    if ret is True:
        sh.count("async_success")
        if len(installs) != 1:
            sh.violation("C01:async:install-count", f"{len(installs)} installs during one successful transfer", wit)
        ok_req = all(any(after[i] == v[i] for v in versions) for i in range(start, min(start + length, len(after)))) if len(after) >= start + length else False
        if not varying:
            ok_req = after[start : start + length] == S[start : start + length]
        if not ok_req:
            bad = [i for i in range(start, min(start + length, len(after))) if not any(after[i] == v[i] for v in versions)][:8]
            sh.violation("C01:async:wrong-bytes", f"transfer reported success but requested bytes differ from the spa's (first at {bad})", dict(wit, first_bad=bad))
        foreign = [i for i in range(min(len(after), 1024)) if after[i] != B0[i] and not any(after[i] == v[i] for v in versions)][:8]
        if foreign:
            sh.violation("C01:async:foreign-bytes", f"bytes changed to something that is not the spa's value at {foreign}", dict(wit, first_bad=foreign))
        if varying and fk == "drop-seg-seq" and len(after) == 1024 and not any(after[start : start + length] == v[start : start + length] for v in versions):
            # nothing was delayed or duplicated here, only dropped: every reply chain is cut from the
            # spa's block at one instant, so what is installed must be ONE of those blocks, not a
            # splice of the segments that survived from two different chains
            sh.violation("C01:async:spliced-replies", "the installed range is a splice of segments of different replies (the spa's block changed between the requests; only losses were injected)", wit)
    elif ret is False:
        sh.count("async_failure")
        if after != B0 or installs:
            sh.violation("C01:async:failed-but-modified", "transfer reported failure but the client block was modified", wit)
        if fk == "none" and N > 0:
            if discards:
                sh.count("self_inflicted_discards_cases")
            else:
                cls = "len%39==0" if length % SEG == 0 else "other"
                sh.violation(f"C01:async:fault-free-failed:{cls}", f"fault-free transfer start={start} length={length} failed after {len(statu)} requests", wit)
    else:
        sh.violation("C01:async:return-type", f"struct.get returned {ret!r}", wit)
    if fault.hit or fk == "none":
        if nseg(length) >= 2 or fk == "none":
            sh.nontrivial(f"A:{start}:{length}:{fk}:{case['fault'].get('idx')}:{case['fault'].get('attempts')}:{ret}")
    sh.see("async_fault_kinds", fk)
    sh.see("async_outcomes", f"{fk}:{ret}")
    sh.maximum("async_max_duration", round(t1 - t0, 2))
    if len(sh.samples) < 3 and fault.hit:
        sh.sample(wit)


async def cancel_case(sh: Shard, rig, case, r, regime):
    """A transfer abandoned by its caller (task cancelled in flight, or while it waits for the
    connection's lock behind another transfer) followed, after quiescence, by a fault-free transfer on
    the same connection: the abandoned one installs all of its range or nothing, the following one
    succeeds (judged in virtual time: it gets 120 s)."""
    from geckolib.driver import GeckoStatusBlockProtocolHandler

    w, spa, sim = rig.w, rig.spa, rig.sim
    start, length = case["start"], case["length"]
    S, B0 = make_blocks(r, "random")
    spa.struct.set_status_block(B0)
    sim.set_block(S)
    installs = []
    orig = spa.struct.replace_status_block_segment

    def tapped(offset, segment):
        installs.append((offset, len(segment), w.now))
        return orig(offset, segment)

    spa.struct.replace_status_block_segment = tapped

    def create_for(st, ln):
        def create():
            return GeckoStatusBlockProtocolHandler.request(rig.protocol.get_and_increment_sequence_counter(False), st, ln, parms=spa.sendparms)

        return create

    wit = {"start": start, "length": length, "cancel_after": case["cancel_after"], "behind_another": case.get("behind", False), "regime": regime, "case_seed": case["seed"]}
    try:
        first = None
        if case.get("behind"):
            first = asyncio.ensure_future(spa.struct.get(rig.protocol, create_for(0, 1024), 3))
            await asyncio.sleep(0.01)
        t = asyncio.ensure_future(spa.struct.get(rig.protocol, create_for(start, length), 3))
        await asyncio.sleep(case["cancel_after"])
        was_done = t.done()
        t.cancel()
        try:
            await t
        except asyncio.CancelledError:
            pass
        except Exception as e:
            d = describe_exc(e)
            sh.violation("C01:async:raise", f"struct.get raised {d['type']}: {d['msg']} when cancelled", dict(wit, exc=d))
        if first is not None:
            await first
        await rig.quiesce()
        sh.evaluations += 1
        sh.count("async_cancelled_transfers")
        if not was_done:
            sh.count("async_transfers_cancelled_in_flight" if not case.get("behind") else "async_transfers_cancelled_behind_another")
        after = spa.struct.status_block
        # (the simulator answers in whole 39-byte segments: an install may be longer than asked)
        mine = [i for i in installs if i[0] == start and i[1] >= length] if not case.get("behind") else installs
        if len(after) != 1024:
            sh.violation("C01:async:block-size", f"client block is {len(after)} bytes after a cancelled transfer", wit)
        else:
            foreign = [i for i in range(1024) if after[i] != B0[i] and after[i] != S[i]][:8]
            if foreign:
                sh.violation("C01:async:foreign-bytes", f"bytes changed to something that is not the spa's value at {foreign} (cancelled transfer)", dict(wit, installs=installs))
            if not case.get("behind"):
                part = after[start : start + length]
                if part != B0[start : start + length] and part != S[start : start + length]:
                    sh.violation("C01:async:partial-install", "a cancelled transfer left its range partly installed", dict(wit, installs=installs))
                if not mine and after != B0:
                    sh.violation("C01:async:failed-but-modified", "a cancelled transfer that installed nothing modified the block", dict(wit, installs=installs))
        # the connection must still serve a fault-free transfer
        B1 = bytes((x + 1) % 256 for x in S)
        spa.struct.set_status_block(B1)
        st2, ln2 = case["follow"]
        try:
            ret = await asyncio.wait_for(spa.struct.get(rig.protocol, create_for(st2, ln2), 10), 120)
        except asyncio.TimeoutError:
            ret = "no return within 120 s"
        except Exception as e:
            ret = f"raised {type(e).__name__}: {e}"
        sh.evaluations += 1
        if ret is not True or spa.struct.status_block[st2 : st2 + ln2] != S[st2 : st2 + ln2]:
            sh.violation("C01:async:fault-free-failed:after-cancelled-transfer", f"fault-free transfer start={st2} length={ln2} after a cancelled one: {ret!r}", wit)
        else:
            sh.count("async_success")
            sh.nontrivial(f"A:cancel:{start}:{length}:{case['cancel_after']}:{case.get('behind', False)}")
    finally:
        try:
            del spa.struct.replace_status_block_segment
        except AttributeError:
            pass
    sh.see("async_fault_kinds", "cancelled")


def shard_async(sh: Shard, regime, cases, seed, wseed):
    from vlib.aworld import ScenarioHang, Watchdog, World
    from vlib.rig import SpaRig

    r = rng("C01", seed, wseed, regime)
    w = World(r, "B", max_iter=8_000_000, wall_cap=900)
    try:
        rig = SpaRig(w)

        async def main():
            if not await rig.connect():
                names = [e[0].name for e in rig.events]
                if "CONNECTION_INITIAL_DATA_BLOCK_REQUEST" in names and "CONNECTION_PROTOCOL_RETRY_COUNT_EXCEEDED" in names:
                    # the handshake's own full-block transfer failed on a fault-free network
                    sh.evaluations += 1
                    sh.violation("C01:async:fault-free-failed:handshake", "the initial full-block transfer (start 0, length 1024) failed on a fault-free network", {"events": names[-6:], "regime": regime})
                else:
                    sh.inconc("rig could not connect")
                return
            w.set_regime(regime)
            for case in cases:
                cr = rng("C01case", case["seed"])
                if "cancel_after" in case:
                    await cancel_case(sh, rig, case, cr, regime)
                    if "C01:async:fault-free-failed:after-cancelled-transfer" in {v["key"] for v in sh.violations}:
                        return  # the connection is wedged; nothing after this is meaningful
                else:
                    await one_case(sh, rig, case, cr, regime)
                if not await rig.quiesce():
                    sh.count("quiesce_timeouts")
            sh.count("async_queue_pops", sum(1 for e in rig.protocol.queue.events if e[0] == "pop"))

        try:
            w.run(main())
        except ScenarioHang:
            sh.inconc("scenario hang (nothing scheduled)")
        except Watchdog as e:
            sh.inconc(f"watchdog: {e}")
    finally:
        w.close()


def gen_cases(tier, seed):
    """Returns {regime: [case,...]}"""
    r = rng("C01gen", seed, tier)
    out = {"B": [], "J": [], "H": []}
    cid = [0]

    def add(regime, start, length, fault, retries=None, **kw):
        cid[0] += 1
        if retries is None:
            retries = 10 if fault["kind"] == "none" else r.choice([2, 3, 3, 10])
        out[regime].append(dict(start=start, length=length, fault=fault, retries=retries, seed=f"{seed}:{cid[0]}", **kw))

    none = {"kind": "none"}
    # ---- fault-free clause (regime B): lengths and starts
    if tier == "quick":
        lens = sorted(set(list(range(1, 41)) + [77, 78, 79, 116, 117, 118, 156, 390, 429, 479, 780, 1014, 1023, 1024] + [r.randrange(1, 1025) for _ in range(25)]))
    else:
        lens = list(range(1, 1025))
    for L in lens:
        add("B", 0, L, none)
    specials = [38, 39, 40, 78, 117]
    starts = range(0, 1024) if tier == "thorough" else sorted(set([0, 1, 38, 39, 40, 255, 256, 512, 900, 984, 985, 986, 1023] + [r.randrange(1024) for _ in range(25)]))
    for st in starts:
        for L in specials + [1024 - st]:
            if L >= 1 and st + L <= 1024:
                add("B", st, L, none)
    for _ in range(300 if tier == "quick" else 20000):
        st = r.randrange(1024)
        add("B", st, r.randrange(1, 1025 - st), none, blocks=r.choice(["random", "pattern", "tags"]))
    # ---- fault enumeration: every single drop / dup / adjacent swap, request faults
    shapes = [(0, 1024), (256, 479), (5, 78), (100, 117), (700, 156), (0, 40)]
    if tier == "thorough":
        shapes += [(0, 39), (1, 1023), (985, 39), (300, 390)]
    for st, L in shapes:
        n = nseg(L)
        for i in range(n):
            for kind in ("drop-seg", "dup-seg") + (("swap",) if i < n - 1 else ()):
                add("B", st, L, {"kind": kind, "idx": i, "attempts": [1]}, retries=3)
        add("B", st, L, {"kind": "drop-req", "attempts": [1]}, retries=3)
        add("B", st, L, {"kind": "dup-req", "attempts": [1]}, retries=3)
        add("B", st, L, {"kind": "dup-req", "attempts": [1], "gap": 0.3}, retries=3)
        add("B", st, L, {"kind": "drop-last", "attempts": [1, 2]}, retries=3)
        add("B", st, L, {"kind": "drop-last", "attempts": [1, 2, 3]}, retries=3)
        add("B", st, L, {"kind": "blackout"}, retries=2)
        add("B", st, L, {"kind": "drop-seg", "idx": min(1, n - 1), "attempts": [1, 2]}, retries=3, varying=True)
        add("B", st, L, {"kind": "swap", "idx": 0, "attempts": [1]}, retries=3, varying=True) if n > 1 else None
        if n > 2:
            # attempt 1 loses a late segment, attempt 2 an earlier one, the spa changes in between
            for k_, j_ in ((n - 1, 0), (n // 2, max(0, n // 2 - 1)), (2, 1)):
                add("B", st, L, {"kind": "drop-seg-seq", "idxs": [k_, j_]}, retries=4, varying=True)
    # ---- the simulator's own unreliability knob
    for _ in range(30 if tier == "quick" else 1500):
        st = r.choice([0, 0, 256, r.randrange(900)])
        L = r.choice([1024 - st, r.randrange(80, 1025 - st) if st < 940 else 1024 - st])
        add(r.choice(["B", "J", "H"]), st, L, {"kind": "sim-reliability", "factor": r.choice([0.5, 0.7, 0.85, 0.95])}, retries=r.choice([2, 3, 5]))
    # ---- a retry budget of 0 (nothing may be sent, nothing installed), given explicitly
    for st, L in [(0, 1024), (256, 479), (5, 1)]:
        add("B", st, L, none, retries=0)
        add("B", st, L, {"kind": "blackout"}, retries=0)
    # ---- transfers abandoned by their caller, then a fault-free one on the same connection
    for regime in ("B", "J", "H"):
        for k in range(4 if tier == "quick" else 60):
            st = r.choice([0, 0, 256, r.randrange(900)])
            L = r.choice([1024 - st, r.randrange(40, 1025 - st)])
            cid[0] += 1
            out[regime].append(dict(start=st, length=L, cancel_after=r.choice([0.0, 0.005, 0.03, 0.1, 0.3, r.uniform(0, 0.7)]), behind=(k % 2 == 1), follow=r.choice([(0, 1024), (st, L)]), fault=none, retries=3, seed=f"{seed}:{cid[0]}"))
    # ---- drawn multi-fault scripts, all three regimes for the atomicity clauses
    nrand = 250 if tier == "quick" else 9000
    for regime in ("B", "J", "H"):
        for _ in range(nrand):
            st = r.choice([0, 0, 256, r.randrange(900)])
            L = r.choice([1024 - st, 479 if st + 479 <= 1024 else 1024 - st, r.randrange(40, 1025 - st)])
            spec = {"kind": "random", "p_drop": r.choice([0.0, 0.02, 0.1, 0.5]), "p_dup": r.choice([0, 0.05, 0.3]), "p_delay": r.choice([0, 0.1, 0.5]), "max_delay": r.choice([0.03, 0.2, 1.0]), "p_drop_req": r.choice([0, 0.3]), "until_attempt": r.choice([1, 2, 10**9])}
            add(regime, st, L, spec, retries=r.choice([1, 2, 3, 5]), varying=r.random() < 0.3, blocks=r.choice(["random", "pattern", "tags"]))
        for _ in range(20 if tier == "quick" else 300):
            st = r.randrange(1000)
            add(regime, st, r.randrange(1, 1025 - st), none)
    return out


def main(tier, seed):
    run = Run("C01", tier, seed, "fault_enumeration")
    cases = gen_cases(tier, seed)
    jobs = []
    per = {"B": 10, "J": 3, "H": 3}
    for regime, lst in cases.items():
        k = per[regime]
        for i in range(k):
            part = lst[i::k]
            if part:
                jobs.append({"regime": regime, "cases": part, "seed": seed, "wseed": i})
    # the real world in parallel: real asyncio loop, real UDP on 127.0.0.1, simulator on its engine thread
    import threading

    real = {}

    def real_part():
        real["res"] = run_shards("checks.c01_real", "shard_real", [{"tier": tier, "seed": seed, "pairs": 8}], timeout=3000 if tier == "thorough" else 900, workers=1)
        real["res"] += run_shards("checks.c20_real", "shard_real", [{"tier": tier, "seed": seed, "pairs": 4, "parts": ["transfers"]}], timeout=3000 if tier == "thorough" else 900, workers=1)

    th = threading.Thread(target=real_part)
    th.start()
    run.absorb(run_shards("checks.c01", "shard_async", jobs, timeout=3000 if tier == "thorough" else 900))
    th.join()
    run.absorb(real["res"])
    try:
        from checks import c01_threaded

        c01_threaded.add(run, tier, seed)
    except ImportError:
        run.extra["threaded_part"] = "not built yet"
    fk = run.sets.get("async_fault_kinds", set())
    for k in ("none", "drop-seg", "dup-seg", "swap", "drop-req", "dup-req", "drop-last", "blackout", "random", "cancelled", "drop-seg-seq", "sim-reliability"):
        run.need(k in fk, f"fault kind {k} never exercised")
    run.need(run.counters.get("async_transfers_cancelled_in_flight", 0) >= 2 and run.counters.get("async_transfers_cancelled_behind_another", 0) >= 2, "no transfer was cancelled in flight / while waiting behind another")
    if not run.counters.get("real_world_unavailable"):
        run.need(run.counters.get("real_success", 0) >= 10 and run.counters.get("real_failure", 0) + len([o for o in run.sets.get("real_outcomes", ()) if o.endswith(":True") and not o.startswith("none")]) >= 3, "the real-UDP part observed too few transfers")
    run.need(run.counters.get("async_success", 0) > 200 and run.counters.get("async_failure", 0) > 5, "too few successful/failed transfers observed")
    return run.finish(
        rule="fault-free transfers for lengths 1..40 and around multiples of 39 / block end / random (thorough: every length at start 0, every start for lengths 38,39,40,78,117 and to-the-end); fault enumeration on 6-10 (start,length) shapes: every single segment drop, duplicate, adjacent swap, request drop/duplicate, repeated final-segment loss, blackout, with static and per-attempt-varying spa blocks; drawn multi-fault scripts (loss/duplication/delay up to 1 s) under regimes B/J/H; one evaluation = one struct.get call; a case is non-trivial iff fault-free or its fault actually hit a datagram of the transfer; distinct by (start,length,fault,index,attempts,outcome); plus the real world: 8 client/simulator pairs in one process on a real asyncio loop over UDP on 127.0.0.1 (simulator on its own engine thread), faults applied at the simulator's OS socket, timing-independent clauses only",
        assumptions=["delays are shorter than the gap between distinct transfers (harness waits for quiescence between cases)", "the fault-free clause is judged under regime B only and a transfer that lost a segment to the client's own unhandled-consumer is not counted as fault-free", "with a per-attempt varying spa block each installed byte must equal the spa's byte at some instant of the transfer"],
    )


def replay(path):
    from vlib.common import replay_args

    return main(*replay_args(path))
