"""C13 on real sockets: the real asyncio facade on a real selector loop commands the hardware model
(ModelSpa on the simulator's real engine thread) over UDP on 127.0.0.1; several pairs in one process.

Judged (timing-independent): a facade command whose coroutine returned produced exactly ONE command
datagram at the spa's OS socket (none when the on/off device was already in the requested state), of
the command verb, with a command-range sequence (SETWC: protocol range) and the connected pack type;
after quiescence the spa's block holds the requested demand and the client's block equals the spa's.
A command that did not complete within its generous wall-clock budget is counted, not judged."""
from __future__ import annotations

import asyncio

from vlib.common import Shard, describe_exc, rng


def inner(data):
    i = data.find(b"<DATAS>") + 7
    return data[i : data.rfind(b"</DATAS>")]


async def pair_main(sh: Shard, rig, r, ncmd):
    from geckolib.automation import GeckoAsyncFacade

    if not await rig.connect(background=True):
        sh.count("real_pairs_not_connected")
        return
    for t in rig.taskman._tasks:
        if t.get_name() == "SPA:Refresh loop":
            t.cancel()
    spa, sim = rig.spa, rig.sim
    facade = GeckoAsyncFacade(spa, rig.taskman)
    try:
        await asyncio.wait_for(facade.wait_for_one_update(), 120)
    except asyncio.TimeoutError:
        sh.count("real_facade_first_update_timeout_not_judged")
        return
    sh.count("real_pairs_connected")
    devices = [("pump", p_) for p_ in facade.pumps] + [("blower", b) for b in facade.blowers] + [("light", l) for l in facade.lights]
    for step in range(ncmd):
        await rig.quiesce(settle=0.3)
        rx0 = len(sim.sock.rx)
        k = r.choice(["device"] * 3 + ["watercare", "temp"]) if devices else r.choice(["watercare", "temp"])
        expect_n, verb, check, desc = 1, b"SPACK", None, None
        try:
            if k == "device":
                typ, dev = r.choice(devices)
                if typ == "pump":
                    modes = [m for m in dict.fromkeys(dev.modes) if m != ""]
                    m = r.choice(modes)
                    ud = dev._user_demand["demand"]
                    desc = ("pump.set_mode", dev.key, m)
                    coro = dev.async_set_mode(m)
                    check = lambda ud=ud, m=m: sim.sim.structure.accessors[ud].value == m  # noqa
                else:
                    on = bool(dev.is_on)
                    want = r.random() < 0.5
                    desc = (f"{typ}.turn_{'on' if want else 'off'}", dev.key, f"was_{'on' if on else 'off'}")
                    coro = dev.async_turn_on() if want else dev.async_turn_off()
                    if on == want:
                        expect_n = 0
                    check = lambda dev=dev, want=want: bool(dev.is_on) == want  # noqa
            elif k == "watercare":
                mode = r.randrange(5)
                desc = ("watercare.set_mode", mode)
                coro = facade.water_care.async_set_mode(mode)
                verb = b"SETWC"
                check = lambda mode=mode: sim.sim.watercare_mode == mode and facade.water_care.mode == mode  # noqa
            else:
                heater = facade.water_heater
                if not heater.is_present:
                    continue
                units = heater.temperature_unit
                t = round(r.uniform(15, 40), 1) if "C" in units else round(r.uniform(59, 104), 1)
                step_ = 1 / 18.0 if "C" in units else 0.1
                desc = ("heater.set_target_temperature", t, units)
                coro = heater.async_set_target_temperature(t)
                check = lambda t=t, s=step_: abs(heater.target_temperature - t) < s + 1e-9  # noqa
            try:
                await asyncio.wait_for(coro, 90)
            except asyncio.TimeoutError:
                sh.count("real_commands_unfinished_not_judged")
                continue
        except Exception as e:
            d = describe_exc(e)
            sh.violation(f"C13:raise:{desc[0] if desc else k}", f"{desc}: raised {d['type']}: {d['msg']} (real UDP)", {"world": "real-udp", "exc": d})
            continue
        await rig.quiesce(settle=0.35)
        cmds = [inner(x[1]) for x in sim.sock.rx[rx0:] if inner(x[1])[:5] in (b"SPACK", b"SETWC")]
        sh.evaluations += 1
        sh.count("real_commands")
        wit = {"world": "real-udp", "pair": rig.n, "command": desc, "sent": [c.hex() for c in cmds]}
        if len(cmds) != expect_n:
            # (a retransmission of a command whose acknowledgement was slow on a loaded box shows as a
            # second, identical-purpose datagram with a FRESH sequence number: counted apart)
            if expect_n == 1 and len(cmds) > 1 and len({c[:5] + c[6:] for c in cmds}) == 1:
                sh.count("real_commands_retransmitted_not_judged")
            else:
                sh.violation(f"C13:command-count:{desc[0]}", f"{desc}: {len(cmds)} command datagrams reached the spa's OS socket, expected {expect_n} (real UDP)", wit)
                continue
        if expect_n == 0:
            sh.count("real_idempotent_calls_checked")
            continue
        c = cmds[0]
        if c[:5] != verb:
            sh.violation(f"C13:wrong-verb:{desc[0]}", f"{desc}: sent {c[:5]!r} (real UDP)", wit)
            continue
        seq = c[5]
        if (verb == b"SPACK" and not (192 <= seq <= 255)) or (verb == b"SETWC" and not (1 <= seq <= 191)):
            sh.violation("C13:sequence-range", f"{desc}: {verb.decode()} carries sequence {seq} (real UDP)", wit)
        if verb == b"SPACK" and c[6] != spa.pack_type:
            sh.violation("C13:pack-type", f"{desc}: pack type {c[6]} != connected pack {spa.pack_type} (real UDP)", wit)
        ok = False
        try:
            ok = check()
        except Exception:
            pass
        if not ok:
            sh.violation(f"C13:readback:{desc[0]}", f"{desc}: after the spa's echo the requested value is not read back (real UDP)", wit)
        elif spa.struct.status_block != sim.block:
            sh.violation("C13:mirror-after-echo", f"{desc}: client block differs from the spa's after the echo (real UDP)", wit)
        else:
            sh.count("real_commands_ok")
        sh.see("real_command_kinds", desc[0])
        sh.nontrivial(f"R13:{rig.n}:{step}:{desc[0]}")
    await facade.disconnect()


def shard_real(sh: Shard, tier, seed, pairs):
    from vlib.modelspa import make_model_class
    from vlib.realworld import RealRig, run_real

    Model = make_model_class()
    snaps = ["default.snapshot", "inYT-Pump1Lo-2020-12-13 11_19_35.snapshot", "inXM-Idle-2020-12-09 11_14_06.snapshot"]
    ncmd = 8 if tier == "quick" else 80

    async def main():
        rigs = []
        try:
            for i in range(pairs):
                rigs.append(RealRig(i, snapshot=snaps[i % len(snaps)], sim_cls=Model))
        except OSError as e:
            sh.count("real_world_unavailable")
            sh.see("real_world_errors", repr(e))
            for g in rigs:
                g.sim.close()
            return

        async def guarded(g):
            try:
                await pair_main(sh, g, rng("C13real", seed, g.n), ncmd)
            except Exception as e:
                d = describe_exc(e)
                if d["where"] == "repo":
                    sh.violation("C13:raise:real", f"{d['type']}: {d['msg']} (real UDP)", d)
                else:
                    raise

        try:
            await asyncio.gather(*(guarded(g) for g in rigs))
        finally:
            for g in rigs:
                await g.close()

    try:
        run_real(main(), wall=500 if tier == "quick" else 2400)
    except asyncio.TimeoutError:
        sh.count("real_world_watchdog")
