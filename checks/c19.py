"""C19 - snapshot capture/replay round-trip and loadability of shipped snapshots.

(a) the real GeckoShell.do_snapshot (object created without its networked constructor,
    facade.spa = a real GeckoSpa carrying the generated block and versions), logged with
    the shell's log-file format, parsed back by GeckoSnapshot.parse_log_file;
(b) the library's own DEBUG traffic log of a status-block transfer produced by the real
    simulator for generated segment sizes, parsed back;
(c) every snapshot parsed from every shipped file loads into the simulator and a real
    client connecting to it (virtual world) ends with an identical block.
"""
from __future__ import annotations

import logging
import os

from vlib.common import CACHE, NCPU, Run, Shard, describe_exc, rng, run_shards

FMT = "%(asctime)s %(name)s %(levelname)s %(message)s"
STATE = {}


def parse_both_ways(GeckoSnapshot, path):
    """Parse a log file the way the checks always did (library logging off) and again the way the
    tools do after their `logfile` command (every geckolib logger at DEBUG): behaviour must not
    depend on whether somebody is listening.  Returns (snapshots, problem or None)."""
    snaps = GeckoSnapshot.parse_log_file(path)
    lg = logging.getLogger("geckolib")
    old_level, old_disable = lg.level, logging.root.manager.disable
    nh = logging.NullHandler()
    try:
        logging.disable(logging.NOTSET)
        lg.setLevel(logging.DEBUG)
        lg.addHandler(nh)
        again = GeckoSnapshot.parse_log_file(path)
    finally:
        lg.removeHandler(nh)
        lg.setLevel(old_level)
        logging.disable(old_disable)
    def field(x, f):
        try:
            return getattr(x, f)
        except Exception as e:  # a header field that is absent raises on access: the same both ways
            return ("raises", type(e).__name__)

    FIELDS = ("bytes", "packtype", "config_version", "log_version", "intouch_EN", "intouch_CO")
    key = lambda ss: [tuple(field(x, f) for f in FIELDS) for x in ss]  # noqa
    same = key(snaps) == key(again)
    if same:
        return snaps, None
    diff = [f for a, b in zip(snaps, again) for f in FIELDS if field(a, f) != field(b, f)]
    return snaps, f"parsing with DEBUG logging enabled gives {len(again)} snapshot(s) with {[len(x.bytes) for x in again]} byte block(s), with logging off {len(snaps)} with {[len(x.bytes) for x in snaps]}; differing fields {sorted(set(diff))}"


class Capture:
    """Attach a file handler with the shell's logfile format to the geckolib loggers."""

    def __init__(self, path, level):
        self.path, self.level = path, level

    def __enter__(self):
        logging.disable(logging.NOTSET)
        self.h = logging.FileHandler(self.path, mode="w")
        self.h.setLevel(self.level)
        self.h.setFormatter(logging.Formatter(FMT))
        self.lg = logging.getLogger("geckolib")
        self.old = self.lg.level
        self.lg.setLevel(self.level)
        self.lg.addHandler(self.h)
        self.prop = self.lg.propagate
        self.lg.propagate = False
        return self

    def __exit__(self, *a):
        self.lg.removeHandler(self.h)
        self.h.close()
        self.lg.setLevel(self.old)
        self.lg.propagate = self.prop
        logging.disable(logging.CRITICAL)


def gen_block(r):
    style = r.choice(["random", "all-values", "quotes", "text", "zeros", "high", "tags", "tags"])
    if style == "tags":
        # intact delimiter text of the wire / log formats inside the block (inside one segment or across two)
        b = bytearray(r.randrange(256) for _ in range(1024))
        for _ in range(r.randrange(1, 6)):
            t = r.choice([b"</DATAS>", b"<DATAS>", b"</PACKT>", b"<PACKT><SRCCN>", b"STATV", b"</DATAS></PACKT>", b"b'</DATAS>'", b"\" from ('10.0.0.1', 10022)", b"' from (", b"['0x41', '0x42']", b"['0x1']", b"Snapshot (x)", b"Config version 3", b"Spa pack inXM 1 v2.3"])
            at = r.randrange(0, 1024 - len(t))
            b[at : at + len(t)] = t
        return style, bytes(b)
    if style == "random":
        return style, bytes(r.randrange(256) for _ in range(1024))
    if style == "all-values":
        off = r.randrange(256)
        return style, bytes((i + off) % 256 for i in range(1024))
    if style == "quotes":
        pool = b"'\"\\\n\r\t<>[],x0 /DATAS"
        return style, bytes(r.choice(pool) for _ in range(1024))
    if style == "text":
        pool = b"</DATAS><PACKT>STATV['0x1', \"b'INFO Snapshot (x)"
        return style, bytes(pool[(i * 7 + r.randrange(3)) % len(pool)] for i in range(1024))
    if style == "zeros":
        return style, bytes(1024)
    return style, bytes(r.randrange(128, 256) for _ in range(1024))


def part_a(sh: Shard, seed, n):
    from geckolib.spa import GeckoSpa
    from geckolib.spa_descriptor import GeckoSpaDescriptor
    from geckolib.utils.shell import GeckoShell
    from geckolib.utils.snapshot import GeckoSnapshot
    from vlib import tables

    os.makedirs(os.path.join(CACHE, "c19"), exist_ok=True)
    path = os.path.join(CACHE, "c19", f"shell-{os.getpid()}.log")
    packs, cfgs, logs = tables.module_stems()
    for i in range(n):
        r = rng("C19a", seed, i)
        style, block = gen_block(r)
        plat = r.choice(packs)
        spa = GeckoSpa(GeckoSpaDescriptor(b"IOSx", b"SPA01:02:03:04:05:06", "Spa", ("10.0.0.1", 10022)))
        spa.struct.set_status_block(block)
        spa.new_pack_class = tables.import_stem(plat).GeckoPack(spa.struct)
        en = (r.choice([0, 88, 65535, r.randrange(65536)]), r.randrange(256), r.randrange(256))
        co = (r.choice([0, 89, 65535, r.randrange(65536)]), r.randrange(256), r.randrange(256))
        spa.intouch_version_en = "{0} v{1}.{2}".format(*en)
        spa.intouch_version_co = "{0} v{1}.{2}".format(*co)
        spa.pack = spa.new_pack_class.name
        pid = (r.randrange(65536), r.randrange(256), r.randrange(256))
        spa.version = "{0} v{1}.{2}".format(*pid)
        spa.config_number = r.randrange(256)
        spa.config_version, spa.log_version = r.randrange(1, 256), r.randrange(1, 256)
        spa.pack_type = spa.new_pack_class.type
        name = r.choice(["state\x0bA", "a\x0cb", "x\x1cy\x1dz\x1e", "p\x85q", "u\u2028v", "w\u2029z"] if i % 9 == 4 else ["Heating", "Pump 1, 2 and blower running", "all off", "x", "a (b) c", "EconomyMode-Active_2", "before Config version 3 upgrade", "after Log version 7 change", "intouch version EN 1 v2.3 installed", "Spa pack inXM 5 v1.2 as shipped", "Got spa configuration Type 1 - CFG 2/LOG 3", "".join(r.choice("abcdefghijklmnopqrstuvwxyzABC 0123456789-_.,()") for _ in range(r.randrange(1, 30)))])

        class F:
            pass

        if i % 7 == 0 or "shell" not in STATE:
            STATE["shell"] = GeckoShell.__new__(GeckoShell)  # a new shell session
        else:
            sh.count("shell_sessions_reused_for_another_spa")
        shell = STATE["shell"]  # the same session goes on to manage another spa (do_manage)
        shell.facade = F()
        shell.facade.spa = spa
        sh.evaluations += 1
        wit = {"part": "a", "block_style": style, "name": name, "platform": spa.pack, "en": en, "co": co, "cfg_log": (spa.config_version, spa.log_version), "case": f"{seed}:{i}"}
        # every fifth snapshot is taken while the connection is busy: a record of ANOTHER geckolib logger
        # (the socket thread reporting a changed value) lands between two of the snapshot's own lines
        class _Interleave(logging.Filter):
            def __init__(self):
                super().__init__()
                self.n = 0

            def filter(self, record):
                self.n += 1
                if self.n == self.at:
                    logging.getLogger("geckolib.driver.accessor").info("Value for %s changed from %s to %s", "UdP1", "OFF", "HI")
                    logging.getLogger("geckolib.spa").info("Snap to it: Config version looks fine")
                return True

        flt = None
        if i % 5 == 3:
            flt = _Interleave()
            flt.at = r.randrange(2, 12)
            logging.getLogger("geckolib.utils.shell").addFilter(flt)
            sh.count("snapshots_with_foreign_log_records_in_between")
        try:
            try:
                with Capture(path, logging.INFO):
                    shell.do_snapshot(name)
            finally:
                if flt is not None:
                    logging.getLogger("geckolib.utils.shell").removeFilter(flt)
            snaps, dbg_problem = parse_both_ways(GeckoSnapshot, path)
            if dbg_problem:
                sh.violation("C19:a:logging-dependent", "shell snapshot: " + dbg_problem, wit)
            else:
                sh.count("parses_repeated_with_debug_logging")
        except Exception as e:
            d = describe_exc(e)
            sh.violation("C19:a:raise", f"snapshot capture/parse raised {d['type']}: {d['msg']}", dict(wit, exc=d))
            continue
        if len(snaps) != 1:
            sh.violation("C19:a:count", f"one snapshot written, {len(snaps)} parsed", wit)
            continue
        s = snaps[0]
        try:
            got = {"bytes": s.bytes, "packtype": s.packtype, "en": s.intouch_EN, "co": s.intouch_CO, "cfg": s.config_version, "log": s.log_version, "name": s.name}
        except Exception as e:
            d = describe_exc(e)
            sh.violation("C19:a:raise", f"reading the parsed snapshot raised {d['type']}: {d['msg']}", dict(wit, exc=d))
            continue
        exp = {"bytes": block, "packtype": spa.pack, "en": en, "co": co, "cfg": spa.config_version, "log": spa.log_version, "name": name}
        bad = [k for k in exp if got[k] != exp[k]]
        if bad:
            sh.violation(f"C19:a:mismatch:{'+'.join(bad)}", f"shell snapshot does not parse back: {bad} differ (e.g. {bad[0]}: got {got[bad[0]]!r:.80} expected {exp[bad[0]]!r:.80})", wit)
        else:
            sh.count("shell_roundtrips_ok")
        if i % 7 == 6 and not bad:
            # the same path is written again - other content, same size, same modification time (a copy
            # that preserves times, a coarse-grained filesystem): parsing reads the file, not a memory of it
            st_ = os.stat(path)
            b2 = bytearray(block)
            idxs = [k for k in range(1024) if b2[k] >= 16]
            if len(idxs) >= 4:
                for k in r.sample(idxs, 3):
                    b2[k] = 16 + (b2[k] - 16 + r.randrange(1, 239)) % 240  # another two-digit hex value
                spa.struct.set_status_block(bytes(b2))
                try:
                    with Capture(path, logging.INFO):
                        shell.do_snapshot(name)
                    same_size = os.stat(path).st_size == st_.st_size
                    os.utime(path, ns=(st_.st_atime_ns, st_.st_mtime_ns))
                    again = GeckoSnapshot.parse_log_file(path)
                    sh.evaluations += 1
                    sh.count("files_rewritten_with_same_size_and_time" if same_size else "files_rewritten_with_same_time")
                    if len(again) != 1 or again[0].bytes != bytes(b2):
                        sh.violation("C19:a:stale-parse", f"a log file written again at the same path (same modification time{', same size' if same_size else ''}, other block) parses to {'the PREVIOUS block' if again and again[0].bytes == block else 'something else'}", dict(wit, same_size=same_size))
                except Exception as e:
                    d = describe_exc(e)
                    sh.violation("C19:a:raise", f"re-written snapshot capture/parse raised {d['type']}: {d['msg']}", dict(wit, exc=d))
        sh.see("block_styles_a", style)
        sh.nontrivial(f"a:{seed}:{i}")
    try:
        os.unlink(path)
    except OSError:
        pass


def part_a_session(sh: Shard, seed, nsnap):
    """One long shell session, captured the way the README says: the shell's own `logfile` command,
    then snapshot after snapshot (the log grows well past a megabyte); the whole file is parsed at
    the end and must give every snapshot back, in order."""
    from geckolib.spa import GeckoSpa
    from geckolib.spa_descriptor import GeckoSpaDescriptor
    from geckolib.utils.shell import GeckoShell
    from geckolib.utils.snapshot import GeckoSnapshot
    from vlib import tables

    d = os.path.join(CACHE, "c19", f"session-{os.getpid()}")
    os.makedirs(d, exist_ok=True)
    path = os.path.join(d, "client.log")
    for f_ in os.listdir(d):
        os.unlink(os.path.join(d, f_))
    packs, cfgs, logs = tables.module_stems()
    r = rng("C19as", seed)
    shell = GeckoShell.__new__(GeckoShell)
    shell.stream_logger, shell.file_logger = None, None
    root = logging.getLogger()
    before_handlers, before_level = list(root.handlers), root.level
    logging.disable(logging.NOTSET)
    # (one shard of every check runs with the geckolib logger cut off from the root logger - see
    # vlib/shard.py; the shell's logfile handler sits on the root logger)
    glog = logging.getLogger("geckolib")
    g_prop, g_level = glog.propagate, glog.level
    glog.propagate = True
    glog.setLevel(logging.NOTSET)
    written = []
    try:
        shell.do_logfile(path)
        for i in range(nsnap):
            style, block = gen_block(r)
            spa = GeckoSpa(GeckoSpaDescriptor(b"IOSx", b"SPA01:02:03:04:05:06", "Spa", ("10.0.0.1", 10022)))
            spa.struct.set_status_block(block)
            spa.new_pack_class = tables.import_stem(r.choice(packs)).GeckoPack(spa.struct)
            en = (r.randrange(65536), r.randrange(256), r.randrange(256))
            co = (r.randrange(65536), r.randrange(256), r.randrange(256))
            spa.intouch_version_en = "{0} v{1}.{2}".format(*en)
            spa.intouch_version_co = "{0} v{1}.{2}".format(*co)
            spa.pack = spa.new_pack_class.name
            spa.version = "{0} v{1}.{2}".format(r.randrange(65536), r.randrange(256), r.randrange(256))
            spa.config_number = r.randrange(256)
            spa.config_version, spa.log_version = r.randrange(1, 256), r.randrange(1, 256)
            spa.pack_type = spa.new_pack_class.type

            class F:
                pass

            shell.facade = F()
            shell.facade.spa = spa
            name = f"state {i}"
            shell.do_snapshot(name)
            written.append({"bytes": block, "packtype": spa.pack, "en": en, "co": co, "cfg": spa.config_version, "log": spa.log_version, "name": name})
    finally:
        for h in list(root.handlers):
            if h not in before_handlers:
                root.removeHandler(h)
                h.close()
        root.setLevel(before_level)
        glog.propagate, _ = g_prop, glog.setLevel(g_level)
        if os.environ.get("VERIF_SHARD_LOGGING") != "debug":
            logging.disable(logging.CRITICAL)
    sh.evaluations += 1
    size = sum(os.path.getsize(os.path.join(d, f_)) for f_ in os.listdir(d))
    sh.maximum("largest_shell_session_log_bytes", size)
    wit = {"part": "a-session", "snapshots_written": nsnap, "log_bytes": size, "files_in_log_directory": sorted(os.listdir(d))}
    try:
        snaps = GeckoSnapshot.parse_log_file(path)
        got = [{"bytes": s_.bytes, "packtype": s_.packtype, "en": s_.intouch_EN, "co": s_.intouch_CO, "cfg": s_.config_version, "log": s_.log_version, "name": s_.name} for s_ in snaps]
    except Exception as e:
        dd = describe_exc(e)
        sh.violation("C19:a:raise", f"parsing a long shell session log raised {dd['type']}: {dd['msg']}", dict(wit, exc=dd))
        got = None
    if got is not None:
        if len(got) != len(written):
            missing = [w_["name"] for w_ in written if w_["name"] not in {g["name"] for g in got}][:5]
            sh.violation("C19:a:session-count", f"{len(written)} snapshots written into one shell session log ({size} bytes), {len(got)} parsed back (missing e.g. {missing})", wit)
        else:
            bad = [i for i, (g, w_) in enumerate(zip(got, written)) if g != w_]
            if bad:
                k = [f for f in written[bad[0]] if got[bad[0]][f] != written[bad[0]][f]]
                sh.violation(f"C19:a:mismatch:{'+'.join(k)}", f"snapshot #{bad[0]} of a long shell session does not parse back: {k} differ", wit)
            else:
                sh.count("long_shell_sessions_parsed_back")
                sh.count("shell_roundtrips_ok", len(written))
    sh.nontrivial(f"a-session:{seed}")
    import shutil

    shutil.rmtree(d, ignore_errors=True)


def part_d(sh: Shard, seed, n):
    """The whole capture pipeline of the blocking client: the real GeckoSpa connects (baton-scheduled
    threads) to the simulator serving a snapshot with drawn firmware versions and block, the real
    shell takes a snapshot of THAT connection, and the log parses back to what the spa served."""
    from geckolib.utils.shell import GeckoShell
    from geckolib.utils.snapshot import GeckoSnapshot
    from vlib import tables
    from vlib.trig import TRig
    from vlib.vthreads import Deadlock, Stuck

    os.makedirs(os.path.join(CACHE, "c19"), exist_ok=True)
    path = os.path.join(CACHE, "c19", f"blocking-{os.getpid()}.log")
    combos = tables.combos()
    for i in range(n):
        r = rng("C19d", seed, i)
        plat, c, l = r.choice(combos)
        style, block = gen_block(r)

        class Snap:
            pass

        sn = Snap()
        from geckolib.driver import GeckoAsyncStructure

        sn.packtype = tables.import_stem(plat).GeckoPack(GeckoAsyncStructure(None, None)).name
        sn.config_version, sn.log_version = c, l
        sn.bytes = block
        sn.intouch_EN = (r.randrange(65536), r.randrange(256), r.randrange(256))
        sn.intouch_CO = (r.randrange(65536), r.randrange(256), r.randrange(256))
        sn.name, sn.timestamp = "synthetic", "2020-01-01 00:00:00"
        try:
            rig = TRig(r, snapshot_obj=sn)
        except Exception as e:
            sh.count("blocking_capture_rig_not_set_up")
            continue
        try:
            try:
                ok = rig.connect()
            except (Deadlock, Stuck):
                ok = False
            if not ok:
                sh.count("blocking_capture_not_connected(C11/C18 subjects)")
                continue
            shell = GeckoShell.__new__(GeckoShell)

            class F:
                pass

            shell.facade = F()
            shell.facade.spa = rig.spa
            sh.evaluations += 1
            wit = {"part": "d", "tables": [plat, c, l], "en": sn.intouch_EN, "co": sn.intouch_CO, "block_style": style}
            try:
                with Capture(path, logging.INFO):
                    shell.do_snapshot("captured")
                snaps = GeckoSnapshot.parse_log_file(path)
            except Exception as e:
                d = describe_exc(e)
                sh.violation("C19:d:raise", f"snapshot of a live blocking connection raised {d['type']}: {d['msg']}", dict(wit, exc=d))
                continue
            if len(snaps) != 1:
                sh.violation("C19:a:count", f"one snapshot of a live blocking connection written, {len(snaps)} parsed", wit)
                continue
            s_ = snaps[0]
            # (the pack name in the header of a live connection is what the block's own PackType item
            # reads - the drawn block says anything there; part (a) covers the pack name)
            got = {"bytes": s_.bytes, "en": s_.intouch_EN, "co": s_.intouch_CO, "cfg": s_.config_version, "log": s_.log_version}
            exp = {"bytes": rig.sim_block, "en": sn.intouch_EN, "co": sn.intouch_CO, "cfg": c, "log": l}
            bad = [k for k in exp if got[k] != exp[k]]
            if bad:
                sh.violation(f"C19:d:mismatch:{'+'.join(bad)}", f"a snapshot taken by the shell of a live blocking connection does not parse back to what the spa served: {bad} differ (e.g. {bad[0]}: got {got[bad[0]]!r:.60} served {exp[bad[0]]!r:.60})", wit)
            else:
                sh.count("blocking_connection_captures_ok")
            sh.nontrivial(f"d:{seed}:{i}")
        finally:
            rig.close()
    try:
        os.unlink(path)
    except OSError:
        pass


def part_b(sh: Shard, seed, n):
    import contextlib
    import io

    from geckolib.driver import GeckoPacketProtocolHandler, GeckoStatusBlockProtocolHandler, GeckoUdpSocket
    from geckolib.utils.snapshot import GeckoSnapshot
    from vlib.aworld import quiet_simulator

    os.makedirs(os.path.join(CACHE, "c19"), exist_ok=True)
    path = os.path.join(CACHE, "c19", f"traffic-{os.getpid()}.log")
    for i in range(n):
        r = rng("C19b", seed, i)
        style, block = gen_block(r)
        segsize = r.choice([39, 39, 4, 5, 16, 60, 64, 100, 255, r.randrange(4, 256)])  # >= 4: at most 256 segments (8-bit index)
        sim = quiet_simulator()
        sent = []

        class Sock:
            def sendto(self, data, addr):
                sent.append(bytes(data))

        sim._socket._socket = Sock()
        sim.structure.set_status_block(block)
        sim._STATUS_BLOCK_SEGMENT_SIZE = segsize
        req = GeckoStatusBlockProtocolHandler.full_request(1, parms=("10.0.0.2", 1234, b"SPA01:02:03:04:05:06", b"IOSx"))
        overlong = 0
        if i % 6 == 5 and segsize >= 8:  # (at most 256 segments: the index is one byte)
            # a request reaching past the end of the block: the simulator closes the chain with empty
            # segments (the last one, with next == 0, carries no data) - still the transferred block
            overlong = r.choice([1025, 1063, 1100, 1024 + segsize, 1024 + 2 * segsize + 1])
            req = GeckoStatusBlockProtocolHandler.request(1, 0, overlong, parms=("10.0.0.2", 1234, b"SPA01:02:03:04:05:06", b"IOSx"))
            sh.count("traffic_logs_of_an_overlong_request")
        wit = {"part": "b", "block_style": style, "segment_size": segsize, "requested_length": overlong or 1024, "case": f"{seed}:{i}"}
        sh.evaluations += 1
        try:
            with contextlib.redirect_stdout(io.StringIO()):
                sim._socket.dispatch_recevied_data(req.send_bytes, ("10.0.0.2", 1234))
                sim._socket._last_send_time = -1e9
                while sim._socket._send_handlers:
                    sim._socket._last_send_time = -1e9
                    sim._socket._process_send_requests()
            client = GeckoUdpSocket()
            client.add_receive_handler(GeckoPacketProtocolHandler(socket=client))
            with Capture(path, logging.DEBUG):
                logging.getLogger("geckolib.spa").info("Starting spa connection handshake...")
                if r.random() < 0.3 and len(sent) > 3:
                    # an earlier connection attempt in the same log that was abandoned part way
                    for dg in sent[: r.randrange(1, len(sent) - 1)]:
                        client.dispatch_recevied_data(dg, ("10.0.0.1", 10022))
                    logging.getLogger("geckolib.spa").info("Starting spa connection handshake...")
                    sh.count("traffic_logs_with_an_abandoned_first_attempt")
                for dg in sent:
                    client.dispatch_recevied_data(dg, ("10.0.0.1", 10022))
            snaps, dbg_problem = parse_both_ways(GeckoSnapshot, path)
            if dbg_problem:
                sh.violation("C19:b:logging-dependent", "traffic log: " + dbg_problem, wit)
            else:
                sh.count("parses_repeated_with_debug_logging")
            got = snaps[-1].bytes if snaps else None
        except Exception as e:
            d = describe_exc(e)
            sh.violation("C19:b:raise", f"traffic-log reassembly raised {d['type']}: {d['msg']}", dict(wit, exc=d))
            continue
        if got != block:
            first = next((j for j in range(min(len(got or b""), 1024)) if got[j] != block[j]), None) if got else None
            sh.violation("C19:b:mismatch", f"traffic log of a {len(sent)}-segment transfer (segment size {segsize}) reassembles to {len(got) if got is not None else None} bytes, first difference at {first}", wit)
        else:
            sh.count("traffic_roundtrips_ok")
        sh.see("segment_sizes", segsize)
        sh.see("block_styles_b", style)
        sh.nontrivial(f"b:{seed}:{i}")
    try:
        os.unlink(path)
    except OSError:
        pass


def part_c(sh: Shard, files):
    import asyncio
    import contextlib
    import io

    from geckolib.utils.snapshot import GeckoSnapshot
    from vlib.aworld import ScenarioHang, SimHost, Watchdog, World, quiet_simulator
    from vlib.rig import SpaRig

    for fn in files:
        base = os.path.basename(fn)
        try:
            snaps, dbg_problem = parse_both_ways(GeckoSnapshot, fn)
            if dbg_problem:
                sh.violation("C19:c:logging-dependent", f"shipped file {base}: " + dbg_problem, {"file": base})
        except Exception as e:
            d = describe_exc(e)
            sh.violation("C19:c:parse-raise", f"shipped snapshot file {base} does not parse: {d['type']}: {d['msg']}", d)
            continue
        if not snaps:
            sh.violation("C19:c:no-snapshot", f"shipped file {base} yields no snapshot", {"file": base})
            continue
        for k, s in enumerate(snaps):
            sh.evaluations += 1
            wit = {"part": "c", "file": base, "index": k}
            try:
                ok_header = s.packtype and len(s.bytes) == 1024 and s.config_version >= 0 and s.log_version >= 0 and len(s.intouch_EN) == 3 and len(s.intouch_CO) == 3
            except Exception as e:
                sh.count("snapshots_with_incomplete_header")
                sh.see("incomplete_headers", f"{base}#{k}")
                continue
            if not ok_header:
                sh.count("snapshots_with_incomplete_header")
                sh.see("incomplete_headers", f"{base}#{k}")
                continue
            r = rng("C19c", base, k)
            w = World(r, "B", max_iter=3_000_000, wall_cap=300)
            try:
                rig = SpaRig.__new__(SpaRig)
                rig.w, rig.tap, rig.events, rig.spa, rig.taskman = w, None, [], None, None
                rig.sim = SimHost(w.net, snapshot=s)
                sim = rig.sim.sim
                loaded = bool(sim.structure.accessors) and getattr(sim, "log_class", None) is not None and getattr(sim, "config_class", None) is not None
                if loaded:
                    loaded = sim.config_class.version == s.config_version and sim.log_class.version == s.log_version and rig.sim.block == s.bytes
                if not loaded:
                    sh.violation("C19:c:not-loadable", f"snapshot {base}#{k} ({s.packtype} cfg {s.config_version} log {s.log_version}) does not load into the simulator", wit)
                    continue

                async def main():
                    if not await rig.connect():
                        return False
                    # what every client does next: the periodic refresh of the log range (a partial
                    # request), here against a client copy that was deliberately spoiled first
                    spa = rig.spa
                    good = spa.struct.status_block
                    spa.struct.set_status_block(bytes((x + 1) % 256 for x in good))
                    okr = await spa.struct.get(spa._protocol, spa._get_status_block_handler_func)
                    lo, n = spa.log_class.begin, spa.log_class.end
                    out_refresh["ok"] = bool(okr) and spa.struct.status_block[lo : lo + n] == s.bytes[lo : lo + n]
                    out_refresh["range"] = (lo, n)
                    spa.struct.set_status_block(good[:lo] + spa.struct.status_block[lo : lo + n] + good[lo + n :])
                    return True

                out_refresh = {}

                try:
                    ok = w.run(main())
                except (ScenarioHang, Watchdog) as e:
                    sh.inconc(f"{type(e).__name__} while serving {base}")
                    continue
                if ok and out_refresh.get("ok") is False:
                    sh.violation("C19:c:refresh-not-served-unchanged", f"a client refreshing its log range {out_refresh.get('range')} from the simulator loaded with {base}#{k} does not get the snapshot's bytes", wit)
                elif ok:
                    sh.count("snapshot_refreshes_served_unchanged")
                if not ok or rig.spa.struct.status_block != s.bytes:
                    sh.violation("C19:c:not-served-unchanged", f"a client connecting to the simulator loaded with {base}#{k} ends connected={ok} with block equal={rig.spa is not None and rig.spa.struct.status_block == s.bytes}", wit)
                else:
                    sh.count("snapshots_served_unchanged")
                    if (rig.spa.pack_type, rig.spa.config_version, rig.spa.log_version) != (sim.pack_type, s.config_version, s.log_version):
                        sh.violation("C19:c:versions", f"client sees {(rig.spa.pack_type, rig.spa.config_version, rig.spa.log_version)} for {base}#{k}", wit)
                sh.nontrivial(f"c:{base}#{k}")
            finally:
                w.close()
        sh.see("files", base)


def part_c_session(sh: Shard, files, seed):
    """One simulator session loads the shipped snapshots one after the other (the `load`
    command): after each load its tables must be those of a fresh simulator loaded with it."""
    import contextlib
    import io

    from geckolib.utils.snapshot import GeckoSnapshot
    from vlib.aworld import quiet_simulator

    r = rng("C19s", seed)
    snaps = []
    for fn in files:
        try:
            for k, s in enumerate(GeckoSnapshot.parse_log_file(fn)):
                if s.packtype and len(s.bytes) == 1024:
                    snaps.append((os.path.basename(fn), k, s))
        except Exception:
            pass
    r.shuffle(snaps)
    session = quiet_simulator()

    def layout(sim):
        return {k: (type(a).__name__, a.pos, a.length, a.bitpos, tuple(a.items) if a.items else None) for k, a in sim.structure.accessors.items()}

    for base, k, s in snaps:
        sh.evaluations += 1
        with contextlib.redirect_stdout(io.StringIO()):
            session.set_snapshot(s)
            fresh = quiet_simulator()
            fresh.set_snapshot(s)
        try:
            same = layout(session) == layout(fresh) and session.structure.status_block == s.bytes and session.config_class.version == fresh.config_class.version and session.log_class.version == fresh.log_class.version and session.pack_type == fresh.pack_type
        except Exception as e:
            same = False
        if not same:
            sh.violation("C19:c:session-load-differs", f"after loading {base}#{k} into a simulator session that had loaded other snapshots before, its tables differ from a fresh simulator's", {"file": base, "index": k})
        else:
            sh.count("session_loads_identical")
    sh.nontrivial(f"session:{seed}")


def main(tier, seed):
    run = Run("C19", tier, seed, "exploration")
    from vlib.aworld import snapshot_dir

    d = snapshot_dir()
    files = [os.path.join(d, f) for f in sorted(os.listdir(d)) if f.endswith(".snapshot")]
    n = 100 if tier == "quick" else 3000
    res = run_shards("checks.c19", "part_a", [{"seed": seed * 100 + i, "n": n} for i in range(6)], timeout=1800)
    res += run_shards("checks.c19", "part_b", [{"seed": seed * 100 + i, "n": n} for i in range(6)], timeout=1800)
    res += run_shards("checks.c19", "part_d", [{"seed": seed * 100 + i, "n": 12 if tier == "quick" else 150} for i in range(4)], timeout=1800)
    res += run_shards("checks.c19", "part_a_session", [{"seed": seed * 100 + i, "nsnap": 190 if i == 0 else 40} for i in range(2 if tier == "quick" else 6)], timeout=1800)
    res += run_shards("checks.c19", "part_c", [{"files": files[i::4]} for i in range(4)], timeout=1800)
    res += run_shards("checks.c19", "part_c_session", [{"files": files, "seed": seed * 10 + i} for i in range(2 if tier == "quick" else 8)], timeout=1800)
    run.absorb(res)
    run.need(len(run.sets.get("files", set())) == len(files), "not every shipped snapshot file was visited")
    run.need(run.counters.get("snapshots_served_unchanged", 0) >= 30, "too few snapshots served to a client")
    run.need(run.counters.get("session_loads_identical", 0) >= 30, "simulator session loads not exercised")
    run.need(run.counters.get("long_shell_sessions_parsed_back", 0) >= 1 and run.maxima.get("largest_shell_session_log_bytes", 0) > 1_100_000, "no shell session log of more than a megabyte was captured with the shell's own logfile command")
    run.need(run.counters.get("blocking_connection_captures_ok", 0) >= 20, "too few snapshots taken of a live blocking connection")
    run.need(run.counters.get("shell_sessions_reused_for_another_spa", 0) > 20, "shell session reuse not exercised")
    run.need(run.counters.get("shell_roundtrips_ok", 0) + run.counters.get("traffic_roundtrips_ok", 0) > 100, "too few round trips")
    run.extra["shipped_files"] = len(files)
    run.sample({"part": "c", "files": [os.path.basename(f) for f in files[:3]]})
    return run.finish(
        rule="(a) generated blocks (random, every byte value at every position class, quote/backslash/newline rich, protocol- and log-like text, zeros, high bytes) x version tuples over their ranges x printable names through the real GeckoShell.do_snapshot and parse_log_file; (b) the same blocks through the real simulator's segment chain for generated segment sizes (4..255) logged by the library's own DEBUG 'Received' line and parsed back; (c) every snapshot of every shipped file: parse, load into the simulator, serve to a real client in the virtual world; (a-session) one long shell session captured with the shell's own logfile command (190 snapshots, > 1 MB) parsed at the end; (d) the blocking client connects to the simulator serving drawn versions and block, the real shell takes a snapshot of that live connection, the log parses back to what was served; one evaluation = one round trip / one shipped snapshot",
        assumptions=["log lines are formatted with the shell's log-file format '%(asctime)s %(name)s %(levelname)s %(message)s'", "a shipped snapshot with an incomplete header (no pack type / versions) is counted, not judged"],
    )


def replay(path):
    from vlib.common import replay_args

    return main(*replay_args(path))
