"""C05 - partial updates are applied exactly once, in arrival order, and acknowledged.

Monitors: STATP datagrams delivered to the client (from the wire log: id, changes),
the instant each is taken from the receive queue (queue tap), refresh call/return and
the spa content each refresh carried (sampled when the simulator dispatched the
STATU), STATQ datagrams on the wire, and the client block at quiescent points.
Oracle: a reference block obtained by applying every delivered update once, in the
order of their processing instants; unique values make histories unambiguous.
"""
from __future__ import annotations

import asyncio
import struct

from vlib.common import NCPU, Run, Shard, describe_exc, rng, run_shards

from vlib.libconst import segment_size


def apply_changes(block: bytes, changes):
    b = bytearray(block)
    for pos, data in changes:
        b[pos : pos + len(data)] = data
    return bytes(b)


def parse_statp(data: bytes):
    i = data.find(b"<DATAS>STATP")
    inner = data[i + 7 : data.rfind(b"</DATAS>")]
    n = inner[5]
    rest = inner[6:]
    if n == 1 and len(rest) == 3:
        return [(struct.unpack(">H", rest[:2])[0], rest[2:3])]
    return [(struct.unpack(">H", rest[4 * k : 4 * k + 2])[0], rest[4 * k + 2 : 4 * k + 4]) for k in range(n)]


class Hist:
    def __init__(self, sh, rig, r):
        from geckolib.driver import GeckoPartialStatusBlockProtocolHandler, GeckoStatusBlockProtocolHandler
        from vlib.rig import CLIENT_ID, SPA_ID

        self.sh, self.rig, self.r = sh, rig, r
        self.P, self.SB = GeckoPartialStatusBlockProtocolHandler, GeckoStatusBlockProtocolHandler
        tr = rig.transport
        self.client_parms = (tr.local[0], tr.local[1], CLIENT_ID, SPA_ID)
        self.ids = (CLIENT_ID, SPA_ID)
        self.uniq = 0x0100
        self.timeline = []  # (t, kind, payload) applied to the reference in time order
        self.statu_snap = []  # (t, sim block) at each STATU dispatch
        self.ops = []
        rig.sim.on_receive = self._on_sim_rx
        if self.client_parms not in rig.sim.sim._clients:
            rig.sim.sim._clients.append(self.client_parms)

    def _on_sim_rx(self, data, src):
        if b"<DATAS>STATU" in data:
            self.statu_snap.append((self.rig.w.now, self.rig.sim.block))

    def unique_word(self):
        self.uniq += 1
        if self.uniq > 0xFFF0:
            self.uniq = 0x0100
        return struct.pack(">H", self.uniq)

    # ---- events
    def statp(self, nchanges, silent_fraction=0.0):
        r = self.r
        changes = []
        for _ in range(nchanges):
            pos = r.choice([r.randrange(0, 1022), r.randrange(256, 735), 300, 301, 1021])
            changes.append((pos, self.unique_word()))
        if changes and r.random() < 0.3:
            changes.append((changes[0][0], self.unique_word()))  # repeated position
        if changes and r.random() < 0.25:
            # a later record of the same message restores what was there before the message
            p0 = changes[0][0]
            before = self.rig.sim.block
            if r.random() < 0.5:
                changes.append((p0, before[p0 : p0 + 2]))
            elif p0 + 3 <= 1024:
                changes.append((p0 + 1, before[p0 + 1 : p0 + 3]))
            self.sh.count("statp_with_restoring_record")
        self.rig.sim.set_block(apply_changes(self.rig.sim.block, changes))
        self.rig.sim.say(self.P.report_changes(self.rig.sim.sock, changes, parms=self.client_parms), self.client_parms)
        self.ops.append(("STATP", len(changes)))
        if r.random() < 0.12:
            # the spa sends the very same update again, byte for byte (each is a message of its own:
            # applied again - idempotent - and acknowledged again)
            self.rig.sim.say(self.P.report_changes(self.rig.sim.sock, changes, parms=self.client_parms), self.client_parms)
            self.ops.append(("STATP-again", len(changes)))
            self.sh.count("statp_sent_twice_verbatim")
        self.sh.count("statp_sent")
        self.sh.see("statp_sizes", len(changes))

    def do_set(self):
        """The simulator's own 1-byte form through its real do_set path."""
        import contextlib
        import io

        sim = self.rig.sim.sim
        cands = [(k, a) for k, a in sim.structure.accessors.items() if a.type == "Enum" and a.length == 1 and a.items and 0 <= a.pos < 1024]
        k, a = self.r.choice(cands)
        labs = [x for x in dict.fromkeys(a.items) if x != ""]
        mx = a.bitmask if a.bitpos is not None else 255
        labs = [x for x in labs if a.items.index(x) <= mx]
        if not labs:
            return
        v = self.r.choice(labs)
        with contextlib.redirect_stdout(io.StringIO()):
            sim.do_set(f"{k}={v}")
        self.rig.sim._kick()
        self.ops.append(("SET", k, v))
        self.sh.count("sim_do_set")

    def silent(self):
        pos = self.r.choice([300, 301, self.r.randrange(256, 734)])
        self.rig.sim.set_block(apply_changes(self.rig.sim.block, [(pos, self.unique_word())]))
        self.ops.append(("SILENT", pos))
        self.sh.count("silent_spa_changes")

    async def refresh(self, start, length):
        rig = self.rig
        n0 = len(self.statu_snap)
        t0 = rig.w.now

        def create():
            return self.SB.request(rig.protocol.get_and_increment_sequence_counter(False), start, length, parms=rig.spa.sendparms)

        ok = await rig.spa.struct.get(rig.protocol, create, 3)
        t1 = rig.w.now
        self.ops.append(("REFRESH", start, length, ok, len(self.statu_snap) - n0))
        self.sh.count("refreshes")
        if not ok:
            self.sh.count("refresh_failed")
            return
        if len(self.statu_snap) == n0:
            self.sh.inconc("refresh returned True but the simulator saw no STATU")
            return
        t_req, content = self.statu_snap[-1]
        SEG = segment_size()
        end = min(start + (-(-length // SEG)) * SEG, 1024)
        # the request was sent more than once (retry) and the spa's bytes changed in between: the
        # installed bytes may come from either answer (C01: the spa's value at some instant of the transfer)
        alts = [c[start:end] for _, c in self.statu_snap[n0:-1] if c[start:end] != content[start:end]]
        if alts:
            self.sh.count("refreshes_with_ambiguous_content")
        self.timeline.append((t1, "refresh", (start, content[start:end], alts)))

    # ---- oracle
    def check(self, base_block, d0, e0, label):
        sh, rig = self.sh, self.rig
        w = rig.w
        q = rig.protocol.queue
        # delivered STATP datagrams, in put order, with their pop instants
        puts = {}
        for ev in q.events[e0:]:
            kind, i, t, data = ev[0], ev[1], ev[2], ev[3]
            if data is None or not data.startswith(b"STATP"):
                continue
            if kind == "put":
                puts[i] = {"put": t, "data": data, "pops": []}
            elif kind == "pop" and i in puts:
                puts[i]["pops"].append((t, ev[4]))
        tl = list(self.timeline)
        for i, p in puts.items():
            inner = p["data"]
            n = inner[5]
            rest = inner[6:]
            if n == 1 and len(rest) == 3:
                ch = [(struct.unpack(">H", rest[:2])[0], rest[2:3])]
            else:
                ch = [(struct.unpack(">H", rest[4 * k : 4 * k + 2])[0], rest[4 * k + 2 : 4 * k + 4]) for k in range(n)]
            if len(p["pops"]) != 1 or "Partial" not in str(p["pops"][0][1]):
                sh.violation("C05:async:not-consumed-once", f"STATP datagram popped {len(p['pops'])} times / by {[x[1] for x in p['pops']]}", {"pops": p["pops"], "history": self.ops[-12:]})
                continue
            tl.append((p["pops"][0][0], "statp", ch))
        tl.sort(key=lambda x: x[0])
        ref = base_block
        either = {}  # byte position -> other admissible values (ambiguous refresh content)
        for t, kind, payload in tl:
            if kind == "statp":
                ref = apply_changes(ref, payload)
                for pos, data in payload:
                    for k in range(len(data)):
                        either.pop(pos + k, None)
            else:
                st, content, alts = payload
                ref = ref[:st] + content + ref[st + len(content) :]
                for k in range(len(content)):
                    either.pop(st + k, None)
                    vals = {a[k] for a in alts if k < len(a) and a[k] != content[k]}
                    if vals:
                        either[st + k] = vals
        got = rig.spa.struct.status_block
        sh.evaluations += 1
        if len(got) == len(ref) and any(got[i] != ref[i] for i in either):
            ref = bytes(got[i] if (i in either and got[i] in either[i]) else ref[i] for i in range(len(ref)))
        if got != ref:
            bad = [i for i in range(min(len(got), len(ref))) if got[i] != ref[i]][:6]
            # classify: replayed (value of an earlier, overwritten writer) / dropped
            sh.violation(
                "C05:async:block-mismatch",
                f"client block differs from the sequentially-updated reference at {bad} after a {label} history (client {got[bad[0]:bad[0]+2].hex() if bad else '?'} reference {ref[bad[0]:bad[0]+2].hex() if bad else '?'}, size {len(got)})",
                {"positions": bad, "history": self.ops[-14:], "label": label, "client": got[bad[0] : bad[0] + 2] if bad else None, "reference": ref[bad[0] : bad[0] + 2] if bad else None},
            )
        else:
            sh.count("histories_matched")
        # acknowledgements: one STATQ per delivered STATP, protocol range, addressed back
        acks = [d for d in w.net.dgrams[d0:] if d.dir == "c2s" and d.verb == "STATQ"]
        # delivered = datagrams the network handed to the client's endpoint (not: what its queue kept)
        delivered = [d for d in w.net.dgrams[d0:] if d.dir == "s2c" and d.verb == "STATP" and d.fate]
        if len(acks) != len(puts) or len(acks) != len(delivered):
            sh.violation("C05:async:ack-count", f"{len(delivered)} partial updates delivered to the endpoint ({len(puts)} reached the receive queue unwrapped), {len(acks)} acknowledgements sent", {"history": self.ops[-12:]})
        cid, sid = self.ids
        for a in acks:
            inner_at = a.data.find(b"<DATAS>") + 7
            seq = a.data[inner_at + 5]
            okframe = a.data.startswith(b"<PACKT><SRCCN>" + cid + b"</SRCCN><DESCN>" + sid + b"</DESCN>")
            if not (1 <= seq <= 191) or not okframe or a.dst != rig.sim.addr:
                sh.violation("C05:async:ack-form", f"acknowledgement with sequence {seq}, to {a.dst}, frame ok={okframe}", {"ack": a.data})
            else:
                sh.count("acks_ok")
        self.timeline = []
        return got


async def run_history(sh, rig, r, mode, nev):
    h = Hist(sh, rig, r)
    await rig.quiesce()
    for round_ in range(nev):
        base = rig.spa.struct.status_block
        d0, e0 = len(rig.w.net.dgrams), len(rig.protocol.queue.events)
        if mode == "long":
            # a long-lived connection: enough acknowledgements for the sequence counter to wrap twice
            for _ in range(45):
                h.statp(r.choice([1, 1, 2]))
                await asyncio.sleep(r.choice([0.11, 0.15, 0.21]))
            await rig.quiesce(settle=0.25)
            h.check(base, d0, e0, "long")
            sh.count("long_connection_rounds")
        elif mode == "serial":
            x = r.random()
            if x < 0.45:
                h.statp(r.choice([0, 1, 1, 2, 5, 12, 12, 127, 128, 200, 250]))
            elif x < 0.60:
                h.do_set()
            elif x < 0.75:
                h.silent()
                await h.refresh(*r.choice([(256, 479), (0, 1024), (280, 60)]))
            elif x < 0.85:
                h.silent()
            elif x < 0.90:
                # refresh, an update inside the refreshed range, the spa silently goes back to what it
                # was, the same refresh again (identical content to the first): the update must be gone
                rg = r.choice([(256, 479), (0, 1024)])
                await h.refresh(*rg)
                await rig.quiesce(settle=0.25)
                before = rig.sim.block
                h.statp(r.choice([1, 2]))
                await rig.quiesce(settle=0.25)
                rig.sim.set_block(before)
                h.ops.append(("SILENT-REVERT",))
                sh.count("silent_reverts_between_identical_refreshes")
                await h.refresh(*rg)
            else:
                await h.refresh(*r.choice([(256, 479), (0, 1024), (290, 39)]))
            await rig.quiesce(settle=0.25)
            h.check(base, d0, e0, "serial")
        else:
            # burst: several updates, silent spa changes and a refresh overlapping in time
            tasks = []
            for _ in range(r.randrange(2, 7)):
                y = r.random()
                if y < 0.55:
                    h.statp(r.choice([0, 1, 2, 4]))
                elif y < 0.7:
                    h.do_set()
                elif y < 0.85:
                    h.silent()
                elif not tasks:
                    tasks.append(asyncio.ensure_future(h.refresh(*r.choice([(256, 479), (0, 1024)]))))
                await asyncio.sleep(r.choice([0, 0.01, 0.05, 0.12, 0.3]))
            for t in tasks:
                await t
            await rig.quiesce(settle=0.25)
            h.check(base, d0, e0, "burst")
        sh.nontrivial(f"{mode}:{h.ops[-1][:2] if h.ops else None}:{len(h.ops)}:{r.random():.6f}")
    rig.sim.on_receive = None
    if len(sh.samples) < 2:
        sh.sample({"mode": mode, "ops": h.ops[:10]})


def shard_async(sh: Shard, seed, wseed, regime, nhist, nev):
    from vlib.aworld import ScenarioHang, Watchdog, World
    from vlib.rig import SpaRig

    for hi in range(nhist):
        r = rng("C05", seed, wseed, hi)
        w = World(r, regime, max_iter=5_000_000, wall_cap=600)
        try:
            rig = SpaRig(w, snapshot=r.choice(["default.snapshot", "inYT-Pump1Lo-2020-12-13 11_19_35.snapshot", "inXM-Idle-2020-12-09 11_14_06.snapshot"]))

            async def main():
                if not await rig.connect():
                    sh.inconc("rig could not connect")
                    return
                if wseed == 0 and hi == 0:
                    await run_history(sh, rig, r, "long", 10)
                await run_history(sh, rig, r, "serial" if hi % 2 == 0 else "burst", nev)

            try:
                w.run(main())
            except ScenarioHang:
                sh.inconc("scenario hang")
            except Watchdog as e:
                sh.inconc(f"watchdog {e}")
            except Exception as e:
                d = describe_exc(e)
                if d["where"] == "repo":
                    sh.violation("C05:async:raise", f"{d['type']}: {d['msg']}", d)
                else:
                    raise
        finally:
            w.close()


def main(tier, seed):
    run = Run("C05", tier, seed, "exploration")
    nh, nev = (10, 30) if tier == "quick" else (160, 80)
    jobs = [{"seed": seed, "wseed": i, "regime": ["B", "J", "B", "H"][i % 4], "nhist": nh, "nev": nev} for i in range(NCPU)]
    # the real world in parallel (real asyncio loop, real UDP on 127.0.0.1, simulator on its engine thread)
    import threading

    real = {}

    def real_part():
        real["res"] = run_shards("checks.c05_real", "shard_real", [{"tier": tier, "seed": seed, "pairs": 6}], timeout=3000, workers=1)
        real["res"] += run_shards("checks.c20_real", "shard_real", [{"tier": tier, "seed": seed, "pairs": 4, "parts": ["partials"]}], timeout=3000, workers=1)

    th = threading.Thread(target=real_part)
    th.start()
    run.absorb(run_shards("checks.c05", "shard_async", jobs, timeout=3000))
    th.join()
    run.absorb(real["res"])
    if not run.counters.get("real_world_unavailable"):
        run.need(run.counters.get("real_histories_matched", 0) >= 20 and run.counters.get("real_acks_ok", 0) >= 50, "the real-UDP part observed too few histories / acknowledgements")
    try:
        from checks import c05_threaded

        c05_threaded.add(run, tier, seed)
    except ImportError:
        run.extra["threaded_part"] = "not built yet"
    run.need(run.counters.get("histories_matched", 0) > 200, "too few histories compared")
    run.need(run.counters.get("acks_ok", 0) > 200, "too few acknowledgements observed")
    run.need(run.counters.get("sim_do_set", 0) > 20 and run.counters.get("silent_spa_changes", 0) > 20 and run.counters.get("refreshes", 0) > 20, "history ingredients missing")
    run.need(run.counters.get("long_connection_rounds", 0) >= 10, "the long-lived connection (two sequence wrap-arounds of acknowledgements) was not driven")
    run.need(run.counters.get("statp_sent_twice_verbatim", 0) > 20, "no partial update was sent twice verbatim")
    run.need(run.counters.get("silent_reverts_between_identical_refreshes", 0) > 10, "no update between two identical refreshes")
    run.need(any(int(x) >= 128 for x in run.sets.get("statp_sizes", set())), "no partial update with 128 or more records")
    run.need("0" in run.sets.get("statp_sizes", set()), "no zero-change partial update sent")
    run.need(run.counters.get("statp_with_restoring_record", 0) > 20, "no partial update with a record restoring the previous value")
    return run.finish(
        rule="histories of partial updates (0..12 changes of unique 2-byte values, repeated positions, the simulator's own 1-byte do_set form), silent spa-side changes and refreshes over the same positions; serial histories are compared after every event, burst histories (updates overlapping a refresh in time) after quiescence, one long-lived connection with 450+ acknowledged updates (the sequence counter wraps twice), against a reference that applies every delivered update once in processing order; one evaluation = one comparison point; distinct = distinct history prefixes; plus the real world: 6 client/simulator pairs in one process over UDP on 127.0.0.1, serial and burst histories of partial updates (0..250 records, verbatim repeats, the 1-byte form), block equality at quiescence and one well-formed STATQ per STATP at the spa's OS socket; the same for 4 blocking-client pairs (real threads, real sockets)",
        assumptions=["fault-free network (loss is C01's subject)", "a refresh carries the spa content sampled when the simulator dispatched the STATU", "positions inside the block (a 2-byte change at byte 1023 would grow the block - outside the statement as read)"],
    )


def replay(path):
    from vlib.common import replay_args

    return main(*replay_args(path))
