"""C15, blocking locator (geckolib/locator.py) under the baton scheduler.  Judged on the
clauses that apply to it: every responding spa listed once with identifier, name and
address intact; return as soon as the requested spa answered, after the initial wait when
anyone answered, never after the discovery timeout; socket closed and retry thread ended.
(The blocking locator lists every responder and lets find_spa pick by identifier, so the
"lists only the requested identifier" clause is not applied to it.)"""
from __future__ import annotations

import contextlib
import io

from checks.c15 import gen_name
from vlib.common import NCPU, Shard, describe_exc, rng, run_shards


def scenario(sh: Shard, seed, idx):
    from geckolib.config import GeckoConfig
    from geckolib.locator import GeckoLocator
    from vlib.vthreads import Deadlock, Sched, Stuck, TNet

    r = rng("C15t", seed, idx)
    s = Sched(r).install()
    saved_cfg = (GeckoConfig.DISCOVERY_INITIAL_TIMEOUT_IN_SECONDS, GeckoConfig.DISCOVERY_TIMEOUT_IN_SECONDS)
    try:
        if idx % 4 == 3:
            # the two discovery settings as an application may have tuned them - also a timeout
            # shorter than the initial wait: "in all cases within the discovery timeout"
            GeckoConfig.DISCOVERY_INITIAL_TIMEOUT_IN_SECONDS, GeckoConfig.DISCOVERY_TIMEOUT_IN_SECONDS = r.choice([(3, 1), (2, 1.5), (0.5, 6), (4, 4), (1, 10), (5, 2)])
            sh.count("threaded_discoveries_with_tuned_timeouts")
            if GeckoConfig.DISCOVERY_TIMEOUT_IN_SECONDS < GeckoConfig.DISCOVERY_INITIAL_TIMEOUT_IN_SECONDS:
                sh.count("threaded_discoveries_with_timeout_shorter_than_initial_wait")
        net = TNet(s)
        resp = []
        for i in range(r.choice([0, 1, 2, 4])):
            ident = b"SPA" + ":".join("%02x" % r.randrange(256) for _ in range(6)).encode()
            sock = net.socket((f"10.0.0.{10 + i}", 10022))
            resp.append({"sock": sock, "ident": ident, "name": gen_name(r), "lat": r.choice([(0.001, 0.003), (0.1, 0.5), (1.0, 3.0), (11.0, 13.0)]), "copies": r.choice([1, 2]), "heard": 0})
        by_addr = {x["sock"].addr: x for x in resp}

        def fault(rec):
            x = by_addr.get(rec["src"])
            if x is not None:
                return [r.uniform(*x["lat"])]
            return None

        net.fault = fault
        target = r.choice(resp) if resp and r.random() < 0.6 else None
        kw = {}
        if target is not None:
            # both forms a caller may hold: the string, or the bytes a descriptor carries
            kw["spa_to_find"] = target["ident"].decode("latin1") if r.random() < 0.5 else target["ident"]
            sh.see("threaded_spa_to_find_forms", type(kw["spa_to_find"]).__name__)
        # "no static address" in the forms callers use: absent, None, or the empty string the shell passes
        sip = r.choice(["absent", None, "", ""])
        if sip != "absent":
            kw["static_ip"] = sip
            sh.see("threaded_static_ip_forms", repr(sip))
        loc = GeckoLocator("02ac6d28-42d0-41e3-ad22-274d0aa491da", **kw)
        done = {}

        # the other way of using the blocking locator: start it, come back later, complete() it
        nowait = idx % 5 == 4
        linger = r.choice([0.3, 2.0, 5.0, 12.0])

        def run_discovery():
            with contextlib.redirect_stdout(io.StringIO()):
                if nowait:
                    loc.start_discovery(False)
                    s.sleep(linger)
                    loc.complete()
                else:
                    loc.start_discovery(True)
            done["t"] = s.now

        from vlib.vthreads import MThread

        t0 = s.now
        th = MThread(s, target=run_discovery, name="harness:discover")
        th.start()
        # the responders answer every broadcast hello they hear
        # (in the start ... complete() form the harness itself lingers before it calls complete())
        deadline = t0 + max(GeckoConfig.DISCOVERY_TIMEOUT_IN_SECONDS, linger if nowait else 0) + 5
        first_arrival = {}
        heard = [0]
        while "t" not in done and s.now < deadline:
            for x in resp:
                while x["sock"].inbox:
                    data, src = x["sock"].inbox.popleft()
                    if data == b"<HELLO>1</HELLO>":
                        heard[0] += 1
                        for _ in range(x["copies"]):
                            n0 = len(net.log)
                            x["sock"].sendto(b"<HELLO>" + x["ident"] + b"|" + x["name"].encode("latin1") + b"</HELLO>", src)
                            for rec in net.log[n0:]:
                                if rec["fate"] and isinstance(rec["fate"], list):
                                    ta = rec["t"] + min(rec["fate"])
                                    first_arrival[x["ident"]] = min(ta, first_arrival.get(x["ident"], ta))
            s.sleep(0.01)
        sh.evaluations += 1
        wit = {"scenario": f"{seed}:{idx}", "responders": [(x["sock"].addr[0], x["ident"].decode(), x["name"], x["lat"]) for x in resp], "spa_to_find": repr(kw.get("spa_to_find"))}
        if "t" not in done:
            sh.violation("C15:threaded:over-timeout", f"blocking discovery still running {s.now - t0:.1f}s after start (timeout {GeckoConfig.DISCOVERY_TIMEOUT_IN_SECONDS}s)", wit)
            return
        dur = done["t"] - t0
        wit["duration"] = round(dur, 3)
        if nowait:
            # only the listing and the clean-up clauses apply to start ... complete()
            sh.count("threaded_start_then_complete_runs")
            listed = [d.identifier for d in loc.spas]
            if len(set(listed)) != len(listed):
                sh.violation("C15:threaded:listed-twice", f"a spa is listed more than once: {listed}", wit)
            for d in loc.spas:
                if not any(x["ident"] == d.identifier and x["name"] == d.name and x["sock"].addr == (d.ipaddress, d.port) for x in resp):
                    sh.violation("C15:threaded:descriptor-not-intact", f"descriptor ({d.identifier!r}, {d.name!r}, {d.ipaddress}) matches no responder", wit)
            s.sleep(1.5)
            left_open = [x.addr for x in net.created if getattr(x, "implicit", False) and not x.closed]
            if left_open or (not loc._socket._socket is None and not getattr(loc._socket._socket, "closed", True)):
                sh.violation("C15:threaded:socket-open", f"discovery socket still open after complete() returned ({left_open})", wit)
            alive = [t.name for t in s.threads if t is not s.main and not t.done]
            if alive:
                sh.violation("C15:threaded:threads-alive", f"threads still alive 1.5 s after complete() returned: {alive}", wit)
            bad = [(n, repr(e)) for n, e in s.errors]
            if bad:
                sh.violation("C15:threaded:thread-died", f"a thread ended with an exception: {bad[0]}", wit)
            sh.nontrivial(f"T:{seed}:{idx}:nowait")
            return
        T_INIT, T_MAX = GeckoConfig.DISCOVERY_INITIAL_TIMEOUT_IN_SECONDS, GeckoConfig.DISCOVERY_TIMEOUT_IN_SECONDS
        slack = 0.35
        listed = [d.identifier for d in loc.spas]
        wit["listed"] = [(d.identifier_as_string, d.name, d.ipaddress) for d in loc.spas]
        if len(set(listed)) != len(listed):
            sh.violation("C15:threaded:listed-twice", f"a spa is listed more than once: {listed}", wit)
        must = {i for i, t in first_arrival.items() if t <= done["t"] - slack}
        may = {i for i, t in first_arrival.items() if t <= done["t"] + 1e-6}
        if not (must <= set(listed) <= may):
            sh.violation("C15:threaded:wrong-set", f"listed {sorted(set(listed))}, replies in time require {sorted(must)} and allow {sorted(may)}", wit)
        for d in loc.spas:
            if not any(x["ident"] == d.identifier and x["name"] == d.name and x["sock"].addr == (d.ipaddress, d.port) for x in resp):
                sh.violation("C15:threaded:descriptor-not-intact", f"descriptor ({d.identifier!r}, {d.name!r}, {d.ipaddress}) matches no responder", wit)
        if dur > T_MAX + slack:
            sh.violation("C15:threaded:over-timeout", f"blocking discovery took {dur:.2f}s (timeout {T_MAX}s)", wit)
        if dur > 1.5 and resp and heard[0] == 0:
            sh.violation("C15:threaded:no-hello-reached-the-spas", f"blocking discovery ran {dur:.2f}s and none of the {len(resp)} spas on the network heard a hello (sent to {sorted({a for x in net.created if getattr(x, 'implicit', False) for _, _, a in x.sent})})", wit)
        if dur > 1.5 and not any(d_ == b"<HELLO>1</HELLO>" for x in net.created if getattr(x, "implicit", False) for _, d_, _ in x.sent):
            sh.violation("C15:threaded:no-hello-sent", f"blocking discovery ran {dur:.2f}s without a single hello leaving its socket", wit)
        if target is not None and target["ident"] in first_arrival and first_arrival[target["ident"]] - t0 < T_MAX - slack:
            if dur > first_arrival[target["ident"]] - t0 + slack:
                sh.violation("C15:threaded:late-return-specific", f"requested spa answered at +{first_arrival[target['ident']] - t0:.2f}s, discovery returned at +{dur:.2f}s", wit)
            sh.count("threaded_returns_on_specific_answer")
        elif first_arrival and max(T_INIT, min(first_arrival.values()) - t0) < T_MAX - slack and target is None:
            exp = max(T_INIT, min(first_arrival.values()) - t0)
            if dur > exp + slack:
                sh.violation("C15:threaded:late-return-any", f"first answer at +{min(first_arrival.values()) - t0:.2f}s but returned at +{dur:.2f}s", wit)
            sh.count("threaded_returns_after_initial_wait")
        elif dur >= T_MAX - 1e-6:
            sh.count("threaded_ran_to_timeout")
        if dur < T_MAX - 1e-6 and not listed:
            sh.violation("C15:threaded:early-return", f"blocking discovery returned at +{dur:.2f}s with nothing listed", wit)
        # clean-up
        s.sleep(1.5)
        left_open = [x.addr for x in net.created if getattr(x, "implicit", False) and not x.closed]
        if left_open or (not loc._socket._socket is None and not getattr(loc._socket._socket, "closed", True)):
            sh.violation("C15:threaded:socket-open", f"discovery socket still open after discovery returned ({left_open})", wit)
        alive = [t.name for t in s.threads if t is not s.main and not t.done]
        if alive:
            sh.violation("C15:threaded:threads-alive", f"threads still alive 1.5 s after discovery returned: {alive}", wit)
        bad = [(n, repr(e)) for n, e in s.errors]
        if bad:
            sh.violation("C15:threaded:thread-died", f"a thread ended with an exception: {bad[0]}", wit)
        sh.nontrivial(f"T:{seed}:{idx}")
    except (Deadlock, Stuck) as e:
        sh.inconc(f"{type(e).__name__}: {e}")
    except Exception as e:
        d = describe_exc(e)
        if d["where"] == "repo":
            sh.violation("C15:threaded:raise", f"{d['type']}: {d['msg']}", d)
        else:
            raise
    finally:
        GeckoConfig.DISCOVERY_INITIAL_TIMEOUT_IN_SECONDS, GeckoConfig.DISCOVERY_TIMEOUT_IN_SECONDS = saved_cfg
        s.close()


def shard(sh: Shard, seed, lo, hi):
    for idx in range(lo, hi):
        scenario(sh, seed, idx)


def add(run, tier, seed):
    per = 12 if tier == "quick" else 300
    run.absorb(run_shards("checks.c15_threaded", "shard", [{"seed": seed, "lo": i * per, "hi": (i + 1) * per} for i in range(NCPU)], timeout=3000))
    run.need(run.counters.get("threaded_returns_on_specific_answer", 0) > 5 and run.counters.get("threaded_ran_to_timeout", 0) > 5, "blocking locator: return-time classes not observed")
