"""C20 - threaded engine: FIFO paced sends, first-match dispatch, bounded handler life.

The real GeckoUdpSocket / GeckoSpa / GeckoSimulator threads run under the deterministic
baton scheduler (virtual time).  Monitors: the mock socket's send log with virtual
timestamps, handle() calls of recording handlers against the registration order
(can_handle re-evaluated by the monitor), the handler list after timeouts, and - for the
handshake - GeckoSpa's connection flag and block against the simulator's under
enumerated per-step loss scripts.  Plus a real-thread stress of the send/handler
queues with line-level yield injection.
"""
from __future__ import annotations

import contextlib
import io
import os

from vlib.common import NCPU, Run, Shard, describe_exc, rng, run_shards

from vlib.libconst import throttle_gap


def make_handler_class():
    from geckolib.driver import GeckoUdpProtocolHandler

    class RecHandler(GeckoUdpProtocolHandler):
        def __init__(self, name, prefixes, log, raises=False, remove_on=None, **kw):
            super().__init__(**kw)
            self.name, self.prefixes, self.log, self.raises, self.remove_on = name, prefixes, log, raises, remove_on

        def can_handle(self, received_bytes, sender):
            return any(received_bytes.startswith(p) for p in self.prefixes)

        def handle(self, received_bytes, sender):
            self.log.append((self.name, received_bytes))
            if self.remove_on is not None and received_bytes.startswith(self.remove_on):
                self._should_remove_handler = True
            if self.raises:
                raise ValueError("handler failure injected by the harness")

        def __repr__(self):
            return f"RecHandler({self.name})"

    return RecHandler


def engine_scenario(sh: Shard, seed, idx):
    from geckolib.driver import GeckoUdpProtocolHandler, GeckoUdpSocket
    from vlib.vthreads import Deadlock, Sched, Stuck, TNet

    r = rng("C20e", seed, idx)
    s = Sched(r).install()
    try:
        net = TNet(s)
        RecHandler = make_handler_class()
        sock = GeckoUdpSocket()
        sock._socket = net.socket(("10.0.0.2", 40001))
        peer = net.socket(("10.0.0.9", 10022))
        sock.open()
        log = []
        label = f"{seed}:{idx}"
        # ---- registration orders with overlapping acceptance
        names = ["A", "B", "C", "D", "E"]
        r.shuffle(names)
        prefixes = {"A": [b"X"], "B": [b"XY", b"Q"], "C": [b"XYZ", b"W"], "D": [b"", ], "E": [b"Q"]}
        nreg = r.randrange(1, 6)
        regs = []
        for n in names[:nreg]:
            h = RecHandler(n, prefixes[n], log, raises=(r.random() < 0.25), remove_on=(b"XYZ!" if r.random() < 0.3 else None))
            sock.add_receive_handler(h)
            regs.append(h)
        # ---- datagrams
        payloads = [b"X1", b"XY2", b"XYZ3", b"Q4", b"W5", b"nothing", b"XYZ!", b"", b"X"]
        sent_in = []
        for k in range(r.randrange(3, 25)):
            p = r.choice(payloads) + bytes([65 + k % 26])
            before_regs = [h for h in sock._receive_handlers]
            n0 = len(log)
            peer.sendto(p, sock._socket.addr)
            ok = s.run_until(lambda: not sock._socket.inbox and not s.pending, 2.0)
            s.sleep(0.06)
            exp = next((h for h in before_regs if any(p.startswith(q) for q in h.prefixes)), None)
            got = log[n0:]
            sh.evaluations += 1
            wit = {"scenario": label, "registration_order": [h.name for h in before_regs], "datagram": p, "handled_by": [g[0] for g in got], "expected": exp.name if exp else None}
            if exp is None:
                if got:
                    sh.violation("C20:dispatch:unaccepted-handled", f"datagram {p!r} accepted by nobody was handled by {[g[0] for g in got]}", wit)
            elif [g[0] for g in got] != [exp.name]:
                sh.violation("C20:dispatch:not-first-match", f"datagram {p!r} handled by {[g[0] for g in got]}, first registered acceptor is {exp.name}", wit)
            else:
                sh.count("dispatches_matched")
                if exp.raises:
                    sh.count("dispatches_after_which_handler_raised")
            if not sock.isopen or sock._thread.done:
                sh.violation("C20:engine-stopped", "the engine thread ended after a dispatch", wit)
                return
        # ---- FIFO paced sends
        class Msg(GeckoUdpProtocolHandler):
            def __init__(self, b):
                super().__init__(send_bytes=b)

            def can_handle(self, a, b):
                return False

            def handle(self, a, b):
                pass

        class BadMsg(GeckoUdpProtocolHandler):
            """a queued send that raises when the engine tries to transmit it"""

            def can_handle(self, a, b):
                return False

            def handle(self, a, b):
                pass

        s.run_until(lambda: not sock._send_handlers, 5)
        base = len(sock._socket.sent)
        queued = []
        dests = [peer.addr, peer.addr, ("10.0.0.77", 10022), ("10.0.0.78", 23456)]
        shared = Msg(b"SHARED")
        for k in range(r.randrange(2, 40)):
            b = b"M%d" % k
            if r.random() < 0.12:
                # send_bytes raises NotImplementedError / destination is None: must be dropped
                if r.random() < 0.5:
                    sock.queue_send(BadMsg(), peer.addr)
                else:
                    sock.queue_send(Msg(b"never"), None)
                sh.count("raising_sends_queued")
            dest = r.choice(dests)
            if r.random() < 0.25:
                # one long-lived handler object queued again and again, for varying destinations
                # (as the simulator answers every discovery with its one hello handler)
                sock.queue_send(shared, dest)
                queued.append((b"SHARED", dest))
                sh.count("sends_of_a_reused_handler")
            sock.queue_send(Msg(b), dest)
            queued.append((b, dest))
            if r.random() < 0.3:
                s.sleep(r.choice([0.001, 0.015, 0.03, 0.2]))
            if r.random() < 0.3:
                # incoming traffic makes the engine loop spin faster than its receive timeout:
                # only the throttle keeps the sends apart then
                for j in range(r.randrange(5, 40)):
                    peer.sendto(b"nothing-%d" % j, sock._socket.addr)
                sh.count("send_batches_with_incoming_flood")
        # one datagram of the batch is refused by the OS when its turn comes: it is lost, the order
        # of all the others is unchanged and the engine carries on
        refused_one = None
        plain = [q for q in queued if q[0] != b"SHARED"]
        if plain and r.random() < 0.35 and sock._send_handlers:
            refused_one = r.choice(plain)
            sock._socket.fail_sends.append(refused_one[0])
            sh.count("fifo_batches_with_a_refused_send")
        s.run_until(lambda: not sock._send_handlers, 10)
        s.sleep(0.1)
        out = sock._socket.sent[base:]
        if refused_one is not None and sock._socket.refused:
            queued = [q for q in queued if q != refused_one]
        sock._socket.fail_sends.clear()
        sh.evaluations += 1
        wit = {"scenario": label, "queued": len(queued), "sent": len(out)}
        if [(d, tuple(a)) for _, d, a in out] != queued:
            left = [(d, tuple(a)) for _, d, a in out]
            k = next((i for i, (x, y) in enumerate(zip(left, queued)) if x != y), min(len(left), len(queued)))
            sh.violation("C20:send-order", f"queued (datagram, destination) pairs left the engine as ...{left[max(0, k - 1):k + 3]}, queue order was ...{queued[max(0, k - 1):k + 3]}", wit)
        else:
            sh.count("fifo_batches_matched")
        gaps = [b[0] - a[0] for a, b in zip(out, out[1:])]
        THROTTLE = throttle_gap()
        if gaps and min(gaps) < THROTTLE - 1e-6:
            sh.violation("C20:throttle", f"two sends {min(gaps)*1000:.2f} ms apart (throttle is {THROTTLE*1000:.0f} ms)", dict(wit, min_gap=min(gaps)))
        if gaps:
            sh.maximum("min_send_gap_ms_x-1", -round(min(gaps) * 1000, 3))
        # ---- bounded handler life: unanswered / answered requests
        sock.close()
        sock = GeckoUdpSocket()  # a fresh engine: nothing else may claim the replies
        sock._socket = net.socket(("10.0.0.2", 40002))
        sock.open()
        for rep in range(r.randrange(1, 4)):
            T = r.choice([0.01, 0.05, 0.3, 1.0, 4.0, 8.0])
            N = r.choice([0, 1, 2, 5, 12])
            answer_at = r.choice([None, None, 1, 2, N + 1]) if N >= 1 else r.choice([None, 1])
            tag = b"RQ%d_" % rep
            req = RecHandler(f"req{rep}", [b"RP%d" % rep], log, remove_on=b"RP%d" % rep, send_bytes=tag, timeout=T, retry_count=N, on_retry_failed=GeckoUdpProtocolHandler._default_retry_failed_handler)
            sock.add_receive_handler(req)
            base = len(sock._socket.sent)
            # exact ordering monitor: when the answer was handled, when transmissions were queued
            t_handled, qs = [], []
            orig_handle, orig_qs = req.handle, sock.queue_send

            def handle_tap(b, snd, _o=orig_handle, _l=t_handled):
                _l.append(s.now)
                return _o(b, snd)

            def qs_tap(h_, d_=None, _o=orig_qs, _l=qs):
                _l.append((s.now, h_))
                return _o(h_, d_)

            req.handle, sock.queue_send = handle_tap, qs_tap
            sock.queue_send(req, peer.addr)
            t0 = s.now
            answered = False
            # the answer may also arrive late: about one timeout after the transmission it answers
            late = answer_at is not None and r.random() < 0.45
            deadline = (N + 2) * (T + 0.2) + 2
            def tx():
                return [x for x in sock._socket.sent[base:] if x[1] == tag]
            while s.now - t0 < deadline:
                if answer_at is not None and not answered and len(tx()) >= answer_at:
                    if late:
                        at_ = tx()[answer_at - 1][0] + T + r.uniform(-0.045, 0.08)
                        s.at(max(s.now, at_), lambda rep=rep: peer.sendto(b"RP%d" % rep, sock._socket.addr))
                        sh.count("answers_arriving_about_one_timeout_late")
                    else:
                        peer.sendto(b"RP%d" % rep, sock._socket.addr)
                    answered = True
                if req not in sock._receive_handlers:
                    break
                s.sleep(0.01)
            s.sleep(T + 0.3)
            sock.queue_send = orig_qs
            txs = tx()
            sh.evaluations += 1
            after = [round(t_ - t_handled[0], 4) for t_, h_ in qs if h_ is req and t_handled and t_ > t_handled[0] + 1e-9]
            if after:
                sh.violation("C20:retransmit-after-answer", f"a retransmission of the request (timeout {T}) was queued {after[0]}s after its answer had been handled", {"scenario": label, "timeout": T, "retries": N, "answer_handled_at": round(t_handled[0] - t0, 4), "late_answer": late})
            wit = {"scenario": label, "timeout": T, "retries": N, "answered_at_transmission": answer_at, "transmissions": [round(x[0] - t0, 3) for x in txs]}
            if req in sock._receive_handlers:
                sh.violation("C20:handler-not-removed", f"request (timeout {T}, {N} retries, answered at {answer_at}) still registered {s.now - t0:.1f}s later", wit)
            if answer_at is None:
                if len(txs) != 1 + N:
                    sh.violation("C20:retransmissions", f"unanswered request with {N} retries was transmitted {len(txs)} times (expected 1 + {N})", wit)
                else:
                    sh.count("unanswered_requests_ok")
            elif T < 0.3 or late:
                # a timeout shorter than the engine's own latency may already have queued a
                # retransmission before the answer is processed: only the budget is judged
                if len(txs) > 1 + N:
                    sh.violation("C20:retransmissions", f"request with {N} retries was transmitted {len(txs)} times", wit)
                sh.count("answered_requests_short_timeout")
            else:
                if len(txs) != answer_at:
                    sh.violation("C20:retransmit-after-answer", f"request answered after transmission {answer_at} was transmitted {len(txs)} times", wit)
                else:
                    sh.count("answered_requests_ok")
            g = [b[0] - a[0] for a, b in zip(txs, txs[1:])]
            if g:
                sh.maximum("max_shortfall_of_retransmission_gap_vs_timeout_s", round(max(0.0, T - min(g)), 3))
            sh.see("timeout_retry_pairs", (T, N, answer_at is not None))
        sock.close()
        sh.nontrivial(f"E:{label}")
    except (Deadlock, Stuck) as e:
        sh.inconc(f"engine scenario: {type(e).__name__}: {e}")
    finally:
        s.close()


def handshake_scenario(sh: Shard, seed, idx, script):
    """script: {'version': k, 'channel': k, 'config': k, 'status': k, 'how': 'request'|'reply'|'segment'}"""
    from geckolib.spa import GeckoSpa
    from geckolib.spa_descriptor import GeckoSpaDescriptor
    from geckolib.utils.snapshot import GeckoSnapshot
    from vlib.aworld import quiet_simulator, snapshot_dir
    from vlib.vthreads import Deadlock, Sched, Stuck, TNet

    r = rng("C20h", seed, idx)
    s = Sched(r).install()
    try:
        net = TNet(s)
        sim = quiet_simulator()
        snapf = r.choice(["default.snapshot", "inYT-Pump1Hi-2020-12-13 11_19_35.snapshot", "inYJ-All off-2020-12-18 11_24_09.snapshot"])
        with contextlib.redirect_stdout(io.StringIO()):
            sim.set_snapshot(GeckoSnapshot.parse_log_file(os.path.join(snapshot_dir(), snapf))[0])
        sim._socket._socket = net.socket(("10.0.0.1", 10022))
        sim._socket.open()
        REQ = {"AVERS": "version", "CURCH": "channel", "SFILE": "config", "STATU": "status"}
        REP = {"SVERS": "version", "CHCUR": "channel", "FILES": "config", "STATV": "status"}
        attempts = {"version": 0, "channel": 0, "config": 0, "status": 0}
        hits = {"n": 0}
        seg_drop = {}

        def fault(rec):
            v = rec["verb"]
            if v in REQ:
                step = REQ[v]
                attempts[step] += 1
                if script["how"][step] == "request" and attempts[step] < script[step]:
                    hits["n"] += 1
                    return []
                if v == "STATU":
                    # choose which segment of this attempt is lost (if the attempt is to fail)
                    # (first, last and the one before last are where the assembly logic branches)
                    seg_drop["idx"] = r.choice([0, 1, 25, 26, 26, r.randrange(0, 27), r.randrange(0, 27)]) if attempts[step] < script[step] else None
                    if seg_drop["idx"] == 26:
                        sh.count("handshake_attempts_losing_the_final_segment")
            elif v in REP:
                step = REP[v]
                if attempts[step] < script[step] and script["how"][step] != "request":
                    if step != "status":
                        hits["n"] += 1
                        return []
                    i = rec["data"].find(b"<DATAS>") + 7
                    segidx = rec["data"][i + 5]
                    if segidx == seg_drop.get("idx"):
                        hits["n"] += 1
                        return []
            return None

        net.fault = fault
        desc = GeckoSpaDescriptor(b"IOSclient", b"SPA01:02:03:04:05:06", "Sim", ("10.0.0.1", 10022))
        spa = GeckoSpa(desc)
        spa._socket = net.socket()
        with contextlib.redirect_stdout(io.StringIO()):
            spa.start_connect()
            budget = sum(script[k] for k in ("version", "channel", "config", "status")) * 4.3 + 30
            ok = s.run_until(lambda: spa._is_connected, budget)
        sh.evaluations += 1
        wit = {"scenario": f"{seed}:{idx}", "script": script, "snapshot": snapf, "attempts_seen": dict(attempts), "faults_hit": hits["n"], "virtual_seconds": round(s.now - 1000, 1), "thread_errors": [(n, repr(e)) for n, e in s.errors]}
        same = spa.struct.status_block == sim.structure.status_block
        if not ok:
            sh.violation("C20:handshake:not-connected", f"the blocking client did not complete its handshake although attempt {script} of each step got through", wit)
        elif not same:
            sh.violation("C20:handshake:block-differs", f"handshake completed but the client's block ({len(spa.struct.status_block)} bytes) differs from the simulator's", wit)
        else:
            sh.count("handshakes_completed")
            sh.maximum("max_handshake_virtual_seconds", round(s.now - 1000, 1))
        if any(isinstance(e, RuntimeError) and "too long" in str(e) for _, e in s.errors):
            sh.count("ping_thread_died_after_45s(noted)")
        unexpected = [(n, repr(e)) for n, e in s.errors if not (isinstance(e, RuntimeError) and "too long" in str(e))]
        if unexpected:
            sh.violation("C20:thread-died", f"a library thread ended with an exception: {unexpected[0]}", wit)
        with contextlib.redirect_stdout(io.StringIO()):
            try:
                spa.complete()
            except RuntimeError:
                pass
            sim._socket.close()
        sh.see("loss_placements", str(sorted(script["how"].items())))
        sh.nontrivial(f"H:{script['version']}:{script['channel']}:{script['config']}:{script['status']}:{sorted(script['how'].items())}")
        if len(sh.samples) < 2 and hits["n"]:
            sh.sample(wit)
    except (Deadlock, Stuck) as e:
        sh.inconc(f"handshake scenario: {type(e).__name__}: {e}")
    finally:
        s.close()


def stress_shard(sh: Shard, seed):
    import socket as _socket
    import threading
    import time

    from geckolib.driver import GeckoUdpProtocolHandler, GeckoUdpSocket
    from vlib.inject import YieldInjector

    sent = []

    class Sock:
        def settimeout(self, t):
            pass

        def sendto(self, d, a):
            sent.append(bytes(d))

        def recvfrom(self, n):
            time.sleep(0.0005)
            raise _socket.timeout()

        def close(self):
            pass

    class Msg(GeckoUdpProtocolHandler):
        def __init__(self, b):
            super().__init__(send_bytes=b)

        def can_handle(self, a, b):
            return False

        def handle(self, a, b):
            pass

    for run_i in range(3):
        del sent[:]
        sock = GeckoUdpSocket()
        sock._socket = Sock()
        sock._SENDING_THROTTLE_RATE_PER_SECOND = 1e9  # harness setting: the race, not the pacing, is probed here
        codes = [GeckoUdpSocket.queue_send.__code__, GeckoUdpSocket.add_receive_handler.__code__, GeckoUdpSocket._process_send_requests.__code__, GeckoUdpSocket._cleanup_handlers.__code__]
        nthreads, per = 5, 40
        handlers = [[Msg(b"h") for _ in range(per)] for _ in range(nthreads)]

        def prod(i):
            for k in range(per):
                sock.queue_send(Msg(b"%d:%d" % (i, k)), ("10.0.0.9", 1))
                sock.add_receive_handler(handlers[i][k])
                if k % 3 == 0:
                    handlers[i][k]._should_remove_handler = True

        with YieldInjector(codes, prob=0.25, seed=seed * 10 + run_i) as inj:
            sock.open()
            ts = [threading.Thread(target=prod, args=(i,)) for i in range(nthreads)]
            for t in ts:
                t.start()
            for t in ts:
                t.join(60)
            t0 = time.time()
            while (sock._send_handlers or any(h.should_remove_handler for h in sock._receive_handlers)) and time.time() - t0 < 90:
                time.sleep(0.01)
            flushed = not sock._send_handlers
            time.sleep(0.1)
            remaining = list(sock._receive_handlers)
            sock.close()
        if not flushed:
            sh.inconc("stress: the engine did not drain its send queue within the real-time watchdog")
            continue
        sh.evaluations += 1
        sh.count("line_events_injected", inj.events)
        from collections import Counter

        c = Counter(sent)
        exp = {b"%d:%d" % (i, k) for i in range(nthreads) for k in range(per)}
        wit = {"run": run_i, "threads": nthreads, "sends_per_thread": per, "inject_seed": seed * 10 + run_i}
        if set(c) != exp or any(v != 1 for v in c.values()):
            lost = sorted(exp - set(c))[:5]
            dup = sorted(k for k, v in c.items() if v > 1)[:5]
            sh.violation("C20:stress:send-lost-or-duplicated", f"{nthreads} threads x {per} queued sends: lost {lost}, duplicated {dup}", wit)
        for i in range(nthreads):
            seq = [int(d.split(b":")[1]) for d in sent if d.startswith(b"%d:" % i)]
            if seq != sorted(seq):
                sh.violation("C20:stress:per-producer-order", f"sends of producer {i} left out of order", wit)
                break
        exp_left = {id(handlers[i][k]) for i in range(nthreads) for k in range(per) if k % 3 != 0}
        got_left = {id(h) for h in remaining}
        if got_left != exp_left:
            sh.violation("C20:stress:handler-list", f"handler list after concurrent registration/clean-up has {len(got_left)} handlers, expected {len(exp_left)} (lost {len(exp_left - got_left)}, stale {len(got_left - exp_left)})", wit)
        sh.nontrivial(f"S:{seed}:{run_i}")


def shard(sh: Shard, seed, lo, hi, scripts):
    for idx in range(lo, hi):
        try:
            engine_scenario(sh, seed, idx)
        except Exception as e:
            d = describe_exc(e)
            if d["where"] == "repo":
                sh.violation("C20:raise", f"{d['type']}: {d['msg']}", d)
            else:
                raise
    for j, sc in enumerate(scripts):
        try:
            handshake_scenario(sh, seed, lo * 1000 + j, sc)
        except Exception as e:
            d = describe_exc(e)
            if d["where"] == "repo":
                sh.violation("C20:raise", f"{d['type']}: {d['msg']}", d)
            else:
                raise


def gen_scripts(tier, seed):
    r = rng("C20s", seed)
    steps = ("version", "channel", "config", "status")
    out = [{"version": 1, "channel": 1, "config": 1, "status": 1, "how": {s: "reply" for s in steps}}]
    ks = range(2, 12) if tier == "thorough" else (2, 3, 6, 11)
    for st in steps:
        for k in ks:
            for how in ("request", "reply"):
                sc = {"version": 1, "channel": 1, "config": 1, "status": 1, "how": {s: "reply" for s in steps}}
                sc[st] = k
                sc["how"][st] = how if st != "status" else ("request" if how == "request" else "segment")
                out.append(sc)
    # handshakes inside the retry budget that take longer than a minute (the client's own ping thread
    # gives up on "is connected" after 45 s - the engine must go on)
    for ks_ in ((8, 8, 1, 1), (9, 1, 9, 1), (6, 6, 6, 1), (10, 10, 10, 1), (1, 8, 8, 2)):
        out.append({**dict(zip(steps, ks_)), "how": {st: "request" if st != "status" else "segment" for st in steps}})
    for _ in range(20 if tier == "quick" else 200):
        out.append({**{st: r.choice([1, 1, 2, 3, 5]) for st in steps}, "how": {st: r.choice(["request", "reply"]) if st != "status" else r.choice(["request", "segment"]) for st in steps}})
    return out


def main(tier, seed):
    run = Run("C20", tier, seed, "fault_enumeration")
    scripts = gen_scripts(tier, seed)
    per = 6 if tier == "quick" else 200
    n = NCPU
    jobs = [{"seed": seed, "lo": i * per, "hi": (i + 1) * per, "scripts": scripts[i::n]} for i in range(n)]
    # the real world in parallel: blocking client and simulator on their own threads and OS sockets
    import threading

    real = {}

    def real_part():
        real["res"] = run_shards("checks.c20_real", "shard_real", [{"tier": tier, "seed": seed, "pairs": 6, "parts": ["handshake", "fifo"]}], timeout=3000, workers=1)

    th = threading.Thread(target=real_part)
    th.start()
    run.absorb(run_shards("checks.c20", "shard", jobs, timeout=3400))
    th.join()
    run.absorb(real["res"])
    if not run.counters.get("real_world_unavailable"):
        run.need(run.counters.get("real_handshakes_completed", 0) >= 3 and run.counters.get("real_fifo_batches_in_order", 0) >= 3, "the real-socket part observed too few handshakes / send batches")
    run.absorb(run_shards("checks.c20", "stress_shard", [{"seed": seed * 7 + i} for i in range(2 if tier == "quick" else 8)], timeout=900, workers=4))
    run.need(run.counters.get("dispatches_matched", 0) > 300, "too few dispatches observed")
    run.need(run.counters.get("dispatches_after_which_handler_raised", 0) > 10, "no raising handler exercised")
    run.need(run.counters.get("unanswered_requests_ok", 0) + run.counters.get("answered_requests_ok", 0) > 50, "too few request lifetimes observed")
    run.need(run.counters.get("handshakes_completed", 0) > 30, "too few handshakes completed")
    run.need(run.counters.get("fifo_batches_with_a_refused_send", 0) >= 5, "no FIFO batch with a send refused by the OS")
    run.need(run.counters.get("handshake_attempts_losing_the_final_segment", 0) >= 3, "no handshake attempt lost the final status segment")
    run.need(run.counters.get("line_events_injected", 0) > 5000, "stress: yield injection saw too few line events")
    run.need(run.counters.get("raising_sends_queued", 0) > 10, "no raising send was queued")
    run.need(run.counters.get("send_batches_with_incoming_flood", 0) > 10, "no send batch was paced against an incoming flood")
    run.extra["handshake_loss_scripts"] = len(scripts)
    return run.finish(
        rule="engine scenarios under the baton scheduler: 1-5 recording handlers with overlapping acceptance in drawn registration orders (some raising, some self-removing) x 3-24 datagrams; 2-39 queued sends with drawn gaps; requests with timeout 0.01-8 s and 0-12 retries, unanswered or answered at a drawn transmission; handshake loss scripts enumerated per step (attempt k of version / channel / config / status is the first to get through, k = 2..11, loss placed on the request, the reply, or one segment of the status chain) plus drawn combinations; real-thread stress of the send/handler queues with line-level yield injection; one evaluation = one dispatch / send batch / request lifetime / handshake / stress run; plus the real world: 6 blocking-client/simulator pairs in one process with their own threads and OS sockets over UDP on 127.0.0.1, one attempt of one handshake step lost, then a batch of distinguishable queued sends whose order is read at the spa's OS socket (pacing measured only)",
        assumptions=["threads switch only at their blocking points (recvfrom, Event.wait, join) under the baton scheduler; real pre-emption inside the critical sections is probed separately by the stress part", "a loss script is admissible iff for each of the four steps some attempt within the retry budget has its request and complete reply delivered"],
    )


def replay(path):
    from vlib.common import replay_args

    return main(*replay_args(path))
