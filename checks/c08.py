"""C08 - lifecycle follows the state table; facade-ready/teardown are well-bracketed.

Monitor: every event delivered to the client's handle_event with the manager's
(state, facade, spa, descriptors, status-sensor text) sampled at delivery, call/return
of async_reset / locate / connect, and periodic samples from a monitor task; judged
by invariants I1-I7 of DESIGN.md (I7, the transition table, on runs whose handlers
never suspend).
"""
from __future__ import annotations

import asyncio

from vlib.common import NCPU, Run, Shard, describe_exc, rng, run_shards

ERR_STATES = ("ERROR_PING_MISSED", "ERROR_RF_FAULT", "ERROR_NEEDS_ATTENTION")


def to_string(state_name):
    from geckolib.spa_state import GeckoSpaState

    return GeckoSpaState.to_string(GeckoSpaState[state_name])


def expected_after(before, ev, rec):
    """Transition table written from the statement and the state/event docstrings."""
    e = ev
    if e == "LOCATING_STARTED":
        return "LOCATING_SPAS"
    if e == "LOCATING_FINISHED":
        return "LOCATED_SPAS"
    if e == "SPA_NOT_FOUND":
        return "ERROR_SPA_NOT_FOUND"
    if e == "CONNECTION_STARTED":
        return "CONNECTING"
    if e == "CONNECTION_SPA_COMPLETE":
        return "SPA_READY"
    if e == "CONNECTION_FINISHED":
        return "CONNECTED" if rec["facade"] is not None else before
    if e == "RUNNING_PING_NO_RESPONSE":
        return "ERROR_PING_MISSED" if before == "CONNECTED" else before
    if e == "ERROR_RF_ERROR":
        return "ERROR_RF_FAULT" if before == "CONNECTED" else before
    if e == "RUNNING_SPA_DISCONNECTED":
        return "IDLE" if before == "CONNECTED" else before
    if e == "RUNNING_PING_RECEIVED":
        return "IDLE" if before in ERR_STATES else before
    if e in ("CONNECTION_PROTOCOL_RETRY_COUNT_EXCEEDED", "ERROR_PROTOCOL_RETRY_COUNT_EXCEEDED", "ERROR_TOO_MANY_RF_ERRORS"):
        return "ERROR_NEEDS_ATTENTION"
    return before


def judge(sh: Shard, mw, label, suspend, regime, exited):
    ev, api, samples = mw.events, mw.api, mw.samples
    wbase = {"scenario": label, "suspend": suspend, "regime": regime, "phases": [(round(t, 1), m, p) for t, m, p in mw.phase_log]}

    def tail(i, n=8):
        return [(round(e["t"], 2), e["event"], e["state"], e["facade"] is not None) for e in ev[max(0, i - n) : i + 1]]

    # resets during which the sequence pump made progress (non-atomic reset mechanism)
    def pump_inside(rec):
        return any(e["task"] == "SPAMAN:Sequence Pump" and rec["seq0"] < e["seq"] < rec.get("seq1", 1 << 60) for e in ev)

    interleaved_resets = [r_ for r_ in api if r_["api"] == "async_reset" and pump_inside(r_)]
    # ---- I1 at every sample
    for s in list(ev) + list(samples):
        if s["state"] == "CONNECTED" and (s["facade"] is None or s["facade_spa_connected"] is not True):
            mech = ":pump-interleaved-reset" if any(r_["seq0"] < s["seq"] for r_ in interleaved_resets) else ""
            sh.violation("C08:I1:connected-without-live-facade" + mech, f"state CONNECTED with facade={s['facade'] is not None} spa connected={s['facade_spa_connected']} at t={s['t']:.2f}", dict(wbase, sample={k: s[k] for k in ("t", "state", "facade_spa_connected")}, resets=[(round(r_["t0"], 2), r_["t1"] and round(r_["t1"], 2)) for r_ in interleaved_resets]))
            break
    sh.count("samples_checked", len(ev) + len(samples))
    # ---- I2 / I3: ready on entry, teardown bracketing
    ready = teardown_since_ready = 0
    total_td = 0
    merged = sorted([(e["seq"], 0, i, e) for i, e in enumerate(ev)] + [(s["seq"], 1, i, s) for i, s in enumerate(samples)], key=lambda x: x[0])
    prev_state = "IDLE"
    for t, kind, i, s in merged:
        entering = s["state"] == "CONNECTED" and prev_state != "CONNECTED"
        is_ready = kind == 0 and s["event"] == "CLIENT_FACADE_IS_READY"
        if is_ready:
            ready += 1
            teardown_since_ready = 0
            sh.count("facade_ready_events")
            if s["state"] != "CONNECTED" or not entering:
                sh.violation("C08:I2:ready-not-on-entry", f"facade-ready delivered in state {s['state']} (previous observed state {prev_state})", dict(wbase, trail=tail(i)))
        elif entering:
            sh.violation("C08:I2:entry-without-ready", f"CONNECTED entered (previous observed state {prev_state}) without facade-ready being announced", dict(wbase, at=round(s["t"], 2), trail=tail(i) if kind == 0 else None))
        if kind == 0 and s["event"] == "CLIENT_FACADE_TEARDOWN":
            total_td += 1
            teardown_since_ready += 1
            sh.count("facade_teardown_events")
            if total_td > ready or teardown_since_ready > 1:
                sh.violation("C08:I3:teardown-excess", f"facade-teardown #{total_td} after {ready} facade-ready ({teardown_since_ready} since the last one)", dict(wbase, trail=tail(i)))
            if s["facade"] is None:
                sh.violation("C08:I3:teardown-without-facade", f"facade-teardown delivered while the manager holds no facade (state {s['state']}, task {s['task']})", dict(wbase, trail=tail(i)))
        prev_state = s["state"]
    # ---- I10: the configured spa does not exist (healthy network): the connect pass ends in the
    # "spa not found" row - announced once, state ERROR_SPA_NOT_FOUND - and discovery is not re-run for ever
    if label.endswith(":wrong-id") and samples:
        n_loc = sum(1 for e in ev if e["event"] == "LOCATING_STARTED")
        n_nf = sum(1 for e in ev if e["event"] == "SPA_NOT_FOUND")
        last = samples[-1]["state"]
        sh.count("wrong_identifier_scenarios")
        if n_nf != 1 or last != "ERROR_SPA_NOT_FOUND" or n_loc > 3:
            sh.violation("C08:I10:not-found-row", f"configured spa absent on a healthy network: {n_loc} locate phases, {n_nf} SPA_NOT_FOUND event(s), final state {last} (expected 2 locate phases, one event, ERROR_SPA_NOT_FOUND)", dict(wbase, trail=tail(len(ev) - 1)))
    # ---- I8: the status-sensor text identifies the state: never a bare number, and two different
    # states never share a text (the wording itself is the library's business)
    texts = {}
    for s_ in list(ev) + list(samples):
        if s_.get("sensor") is None:
            continue
        txt = str(s_["sensor"])
        if txt.strip().lstrip("-").isdigit() or not txt.strip():
            sh.violation("C08:I8:sensor-text-not-a-status", f"status sensor shows {txt!r} in state {s_['state']}", dict(wbase, state=s_["state"]))
            break
    # ---- I9: RF-error escalation: more RF-error events on one connection than the library's limit
    # put the manager into ERROR_NEEDS_ATTENTION (the lifecycle row of "too many RF errors")
    from geckolib.const import GeckoConstants

    limit = GeckoConstants.MAX_RF_ERRORS_BEFORE_HALT
    n_rf, t_over = 0, None
    for e in ev:
        if e["event"] in ("CONNECTION_STARTED", "CLIENT_FACADE_IS_READY"):
            n_rf, t_over = 0, None
        elif e["event"] == "ERROR_RF_ERROR" and e["task"] == "SPA:RFErr handler":
            n_rf += 1
            if n_rf == limit + 2 and t_over is None:
                t_over = e["t"]
                sh.count("rf_error_escalations_due")
                later = [x for x in samples if x["t"] > t_over + 1.0]
                reset_meanwhile = bool(later) and any(r_["api"] == "async_reset" and t_over - 1.0 <= r_["t0"] <= later[0]["t"] for r_ in api)
                if later and not reset_meanwhile and later[0]["state"] in ("CONNECTED", "ERROR_RF_FAULT"):
                    sh.violation("C08:I9:rf-escalation-missing", f"{n_rf} RF-error events on one connection (limit {limit}) and the manager is still in {later[0]['state']}, not ERROR_NEEDS_ATTENTION", dict(wbase, at=round(t_over, 1)))
    # ---- I4: brackets
    for a, b, name in (("LOCATING_STARTED", "LOCATING_FINISHED", "LOCATING"), ("CONNECTION_STARTED", "CONNECTION_FINISHED", "CONNECTION")):
        open_ = 0
        after_exit = False
        for i, e in enumerate(ev):
            if e["event"] == "SPA_MAN_EXIT":
                # the context is being left: the pump is cancelled.  A phase cancelled before its
                # STARTED could be delivered may still deliver FINISHED (tolerated); a phase that did
                # start must still be closed by the cancellation unwinding through it
                after_exit = True
                if open_:
                    sh.count("brackets_open_at_exit")
                continue
            if e["event"] == a:
                open_ += 1
                if open_ > 1 and not after_exit:
                    sh.violation(f"C08:I4:bracket:{name}", f"{a} delivered while the previous phase was not closed", dict(wbase, trail=tail(i)))
                    open_ = 1
            elif e["event"] == b:
                open_ -= 1
                if open_ < 0:
                    cleared = any(r_["api"] == "async_set_spa_info" and r_["args"][:2] == [None, None] and r_["seq0"] < e["seq"] for r_ in api)
                    if cleared:
                        # (the statement asks that a STARTED phase be closed, not the converse; once the
                        # spa details were cleared the STARTED announcement itself can fail before it is
                        # delivered, and the closing event still is: observed on the unchanged tree, counted)
                        sh.count("finished_without_started_after_details_were_cleared")
                    elif not after_exit:
                        sh.violation(f"C08:I4:bracket:{name}", f"{b} without a started phase", dict(wbase, trail=tail(i)))
                    open_ = 0
        if open_ and after_exit and name == "CONNECTION":
            # the closing event is delivered after its nested facade-ready announcement: a cancellation
            # that lands inside that (suspended) announcement cuts the delivery of the closing event itself
            last_start = max(i for i, e in enumerate(ev) if e["event"] == a)
            if any(e["event"] == "CLIENT_FACADE_IS_READY" for e in ev[last_start:]):
                sh.count("closing_event_cut_by_exit_inside_its_nested_announcement")
                open_ = 0
            else:
                # the same cut, one announcement earlier: the phase is unwinding at exit (an attempt a
                # reset had let go of disconnects its spa first), the client's handler of THAT nested
                # announcement is suspended, and the exit's second cancellation lands in it
                ex_i = max(i for i, e in enumerate(ev) if e["event"] == "SPA_MAN_EXIT")
                tail_ = [e for e in ev[ex_i + 1 :] if e["task"] == "SPAMAN:Sequence Pump"]
                if tail_ and tail_[-1].get("suspended") is not None and tail_[-1]["event"] != b:
                    sh.count("closing_event_cut_by_exit_inside_a_suspended_nested_announcement")
                    open_ = 0
        if open_:
            sh.violation(f"C08:I4:bracket:{name}", f"{a} never closed by {b}" + (" (the context was left while the phase was running: the cancellation did not close it)" if after_exit else ""), dict(wbase, trail=tail(len(ev) - 1)))
    for rec in api:
        if rec["api"] in ("async_locate_spas", "async_connect_to_spa") and rec["exc"] not in (None, "CancelledError"):
            sh.count("phases_that_raised")
            closing = "LOCATING_FINISHED" if rec["api"] == "async_locate_spas" else "CONNECTION_FINISHED"
            if not any(e["event"] == closing and rec["t0"] <= e["t"] <= (rec["t1"] or 1e18) for e in ev):
                sh.violation("C08:I4:raise-not-closed", f"{rec['api']} raised {rec['exc']} without delivering {closing}", dict(wbase, api=rec["api"]))
    # ---- I5: reset post-condition
    exit_seq = min([e["seq"] for e in ev if e["event"] == "SPA_MAN_EXIT"], default=1 << 60)
    for rec in api:
        if rec["api"] == "async_reset" and rec["exc"] is not None and rec.get("seq1", 1 << 60) < exit_seq:
            overlapping = any(o is not rec and o["api"] == "async_reset" and o["seq0"] < rec["seq1"] and o.get("seq1", 1 << 60) > rec["seq0"] for o in api)
            a = rec["after"]
            if not overlapping and (a["state"] != "IDLE" or a["facade"] is not None or a["spa"] is not None or a["desc"]):
                sh.violation("C08:I5:reset-aborted", f"async_reset (from {rec['before']['state']}, task {rec['task']}) was aborted by {rec['exc']} and left state={a['state']} facade={a['facade'] is not None} spa={a['spa'] is not None} descriptors={a['desc']}", dict(wbase, reset=[round(rec["t0"], 2), round(rec["t1"], 2)]))
            sh.count("resets_aborted")
        if rec["api"] != "async_reset" or rec["t1"] is None or rec["exc"] is not None:
            continue
        a = rec["after"]
        sh.count("resets_returned")
        sh.see("reset_from_states", rec["before"]["state"])
        if a["state"] != "IDLE" or a["facade"] is not None or a["spa"] is not None or a["desc"]:
            interleaved = pump_inside(rec)
            overlapping = any(o is not rec and o["api"] == "async_reset" and o["seq0"] < rec["seq1"] and o.get("seq1", 1 << 60) > rec["seq0"] for o in api)
            key = "C08:I5:reset-postcondition" + (":pump-interleaved" if interleaved else (":overlapping-resets" if overlapping else ""))
            sh.violation(key, f"async_reset (from {rec['before']['state']}, task {rec['task']}) returned with state={a['state']} facade={a['facade'] is not None} spa={a['spa'] is not None} descriptors={a['desc']}", dict(wbase, reset=[round(rec["t0"], 2), round(rec["t1"], 2)]))
    for e in ev:
        if e.get("reset_from_handler"):
            sh.count("resets_made_from_a_client_handler_on_a_connection_task" if str(e["task"]).startswith(("FACADE:", "SPA:")) else "resets_made_from_a_client_handler")
            sh.see("reset_from_handler_tasks", e["task"])
    # ---- I5b: giving the manager its spa details (again, other ones, or none) is a user reset:
    # a call that returned made a reset (judged above like any other)
    for rec in api:
        if rec["api"] == "async_set_spa_info" and rec["t1"] is not None and rec["exc"] is None:
            sh.count("set_spa_info_calls_returned")
            sh.see("set_spa_info_from_states", rec["before"]["state"])
            inside = [o for o in api if o["api"] == "async_reset" and rec["seq0"] < o["seq0"] < rec["seq1"]]
            if not inside:
                sh.violation("C08:I5:set-spa-info-without-reset", f"async_set_spa_info{tuple(rec['args'])} called in state {rec['before']['state']} returned without resetting the manager", dict(wbase, call=[round(rec["t0"], 2), round(rec["t1"], 2)]))
        if rec["api"] == "reconnect_button" and rec["t1"] is not None and rec["exc"] is None:
            # the reconnect button the manager hands to the client is the user reset under another name
            sh.count("reconnect_button_presses_returned")
            sh.see("reconnect_button_from_states", rec["before"]["state"])
            inside = [o for o in api if o["api"] == "async_reset" and rec["seq0"] < o["seq0"] < rec["seq1"]]
            if not inside:
                sh.violation("C08:I5:button-without-reset", f"the reconnect button pressed in state {rec['before']['state']} returned without resetting the manager", dict(wbase, call=[round(rec["t0"], 2), round(rec["t1"], 2)]))
    # ---- I6: status sensor mirrors state
    for i, e in enumerate(ev):
        if e["sensor"] is not None and e["sensor"] != to_string(e["state"]):
            sh.violation("C08:I6:sensor", f"status sensor reads {e['sensor']!r} while the state is {e['state']} at delivery of {e['event']}", dict(wbase, trail=tail(i)))
            break
    # ---- I6b: a client watching the status sensor reads the text of the manager's state inside its
    # notification, and the new value it is told is that text
    for n_ in getattr(mw, "sensor_notifications", []):
        sh.count("status_sensor_notifications_observed")
        if n_["shown"] != n_["expected"]:
            sh.violation("C08:I6:sensor-at-notification", f"a watcher of the status sensor read {n_['shown']!r} inside its notification while the state was {n_['state']} ({n_['expected']!r})", dict(wbase, at=round(n_["t"], 2)))
            break
    # ---- I7: transition table (sequential semantics only)
    if suspend == "none":
        timeline = sorted([(e["seq"], "ev", e) for e in ev] + [(r["seq1"], "reset", r) for r in api if r["api"] == "async_reset" and r["t1"] is not None and r["exc"] is None], key=lambda x: x[0])
        before = "IDLE"
        # (the table is the harness's reading of the documented flow with spa details present: once
        # they were cleared, announcements that need them can fail before delivery - a transition is
        # then made without its event - so the table is judged up to that call only)
        cleared_at = min([r_["seq0"] for r_ in api if r_["api"] == "async_set_spa_info" and r_["args"][:2] == [None, None]], default=1 << 60)
        for seq_, kind, x in timeline:
            if seq_ > cleared_at:
                sh.count("table_runs_cut_where_the_details_were_cleared")
                break
            if kind == "reset":
                sh.see("state_event_pairs", f"{x['before']['state']}+reset-by:{'ping-received' if x['task'] == 'SPA:Ping loop' else 'user'}")
                before = x["after"]["state"]
                continue
            e = x["event"]
            if e.startswith("CLIENT_"):
                ok = {"CLIENT_FACADE_IS_READY": ("CONNECTED",), "CLIENT_FACADE_TEARDOWN": ("ERROR_PING_MISSED", "ERROR_RF_FAULT", "IDLE"), "CLIENT_HAS_RECONNECT_BUTTON": ("CONNECTING",)}.get(e)
                if ok and x["state"] not in ok:
                    sh.violation(f"C08:I7:table:{e}", f"{e} delivered in state {x['state']}", dict(wbase, before=before))
                continue
            exp = expected_after(before, e, x)
            sh.see("state_event_pairs", f"{before}+{e}")
            if x["state"] != exp:
                sh.violation(f"C08:I7:table:{e}", f"event {e} in state {before}: state at delivery is {x['state']}, the lifecycle table says {exp}", dict(wbase, before=before, event=e, got=x["state"], expected=exp))
            before = x["state"]
        sh.count("table_runs")
    for s in list(ev) + list(samples):
        sh.see("abstract_states", (s["state"], s["facade"] is not None, s["spa"] is not None, s["desc"], s["sensor"]))
    sh.see("events_seen", *[e["event"] for e in ev][:0] or ["-"])
    for e in ev:
        sh.see("events_seen", e["event"])


async def press_button(man, mw, sh):
    """Press the manager's own reconnect button (falls back to async_reset while there is none yet)."""
    b = man.reconnect_button
    if b is None:
        return await man.async_reset()
    rec = {"api": "reconnect_button", "t0": mw.w.now, "seq0": mw.next_seq(), "before": man._sample(), "t1": None, "exc": None}
    mw.api.append(rec)
    sh.count("reconnect_button_presses")
    try:
        return await b.async_press()
    except BaseException as e:
        rec["exc"] = type(e).__name__
        raise
    finally:
        rec["t1"] = mw.w.now
        rec["seq1"] = mw.next_seq()


def gen_script(r, tier):
    from vlib.man import Phase

    kind = r.choice(["plain", "plain", "outage", "rferr", "lossy-handshake", "absent", "wrong-id", "resets", "resets", "endpoint-raise", "long", "handler-raise", "handler-raise", "rferr-long", "reset-at-step", "reset-at-step", "button-in-flight", "reset-from-facade-poll"])
    phases, actions = [], []
    ident = None
    ep_fault = None
    if kind == "plain":
        phases = [Phase("healthy", r.choice([8, 20, 70]))]
    elif kind == "outage":
        phases = [Phase("healthy", r.choice([6, 15])), Phase("blackout", r.choice([130, 200, 330])), Phase("healthy", r.choice([30, 200]))]
    elif kind == "rferr":
        phases = [Phase("healthy", r.choice([6, 70])), Phase("rferr", r.choice([3, 70, 200])), Phase("healthy", r.choice([30, 150]))]
    elif kind == "lossy-handshake":
        phases = [Phase("lossy", r.choice([30, 90, 200]), r.choice([0.2, 0.5, 0.8])), Phase("healthy", r.choice([60, 200]))]
    elif kind == "absent":
        phases = [Phase("absent", r.choice([5, 25])), Phase("healthy", 40)]
    elif kind == "wrong-id":
        ident = "SPA99:99:99:99:99:99"
        phases = [Phase("healthy", 30)]
    elif kind == "resets":
        phases = [Phase("healthy", r.choice([20, 60, 140]))]
        n = r.choice([1, 2, 4])
        for _ in range(n):
            actions.append((r.choice([r.uniform(0, 6), r.uniform(0, phases[0].dur)]), r.choice(["reset", "button", "set-info", "clear-info"])))
    elif kind == "reset-from-facade-poll":
        # pings are answered, the facade's watercare / reminders poll is not: its retries run out, the
        # client is told - on the facade's own update task - and resets the manager from that handler
        phases = [Phase("healthy", 8), Phase("nopoll", 200), Phase("healthy", 60)]
    elif kind == "button-in-flight":
        # connected, reset, and the button pressed while the manager is locating / connecting again
        phases = [Phase("healthy", 40)]
        actions = [(12.0, "reset")] + [(12.0 + d_, "button") for d_ in sorted(r.sample([0.3, 0.8, 1.5, 2.5, 3.5, 5.0], r.choice([1, 2, 3])))]
    elif kind == "reset-at-step":
        # a user reset right after the k-th callback scheduled since the context was entered
        phases = [Phase("healthy", r.choice([10, 25]))]
        actions = [(("step", r.randrange(0, 330)), r.choice(["reset", "reset", "set-info"]))]
    elif kind == "rferr-long":
        # past the too-many-RF-errors escalation (more than 50 on one connection)
        phases = [Phase("healthy", r.choice([6, 30])), Phase("rferr", r.choice([500, 3700])), Phase("healthy", 150)]
    elif kind == "handler-raise":
        phases = [Phase("healthy", r.choice([40, 120]))]
        if r.random() < 0.4:
            actions.append((r.uniform(8, 30), "reset"))
    elif kind == "endpoint-raise":
        phases = [Phase("healthy", 15)]
        ep_fault = r.choice([0, 1, 2])
    else:
        phases = [Phase("healthy", 20), Phase("lossy", 100, 0.4), Phase("rferr", 40), Phase("blackout", 150), Phase("healthy", 250)]
        actions = [(r.uniform(0, 500), "reset") for _ in range(r.choice([0, 2]))]
    return kind, phases, (actions if kind == "reset-at-step" else sorted(actions)), ident, ep_fault


def scenario(sh: Shard, seed, idx, tier):
    from vlib.aworld import ScenarioHang, Watchdog
    from vlib.man import ManWorld, make_manager_class

    r = rng("C08", seed, idx)
    regime = r.choice(["B", "J", "J", "H"])
    suspend = r.choice(["none", "none", "tick", "seconds", "mixed"])
    kind, phases, actions, ident, ep_fault = gen_script(r, tier)
    label = f"{seed}:{idx}:{kind}"
    kw = {}
    if ident:
        kw["identifier"] = ident
    # snapshots with a pump running put the library in its "active" timing table
    snapshot = r.choice(["default.snapshot", "inYT-Pump1Hi-2020-12-13 11_19_35.snapshot", "inXM-Pump 1 running-2020-12-08 19_54_01.snapshot", "inYT-all off-2020-10-23 18_00_45.snapshot"])
    if kind == "reset-from-facade-poll":
        suspend = "none"  # (with suspending handlers the reset made from the task it cancels is cut short by design of asyncio)
    mw = ManWorld(r, regime, suspend=suspend, snapshot=snapshot, **kw)
    if kind == "reset-from-facade-poll":
        mw.reset_in_handler, mw.resets_in_handler_left = {"ERROR_PROTOCOL_RETRY_COUNT_EXCEEDED"}, 1
    if kind == "handler-raise":
        # the client's handler fails on events delivered inside a locate / connect phase
        pool = ["LOCATING_STARTED", "LOCATING_DISCOVERED_SPA", "LOCATING_FINISHED", "CONNECTION_STARTED", "CONNECTION_GOT_FIRMWARE_VERSION", "CONNECTION_GOT_CHANNEL", "CONNECTION_GOT_CONFIG_FILES", "CONNECTION_INITIAL_DATA_BLOCK_REQUEST", "CONNECTION_SPA_COMPLETE", "CONNECTION_FINISHED"]
        mw.raise_events = set(r.sample(pool, r.choice([1, 1, 2, 3])))
        mw.raises_left = r.choice([1, 2, 3])
        sh.see("handler_raise_events", tuple(sorted(mw.raise_events)))
    exited = {"v": False}
    try:
        Man = make_manager_class()
        if ep_fault is not None:
            mw.w.loop.endpoint_faults = [None] * ep_fault + [OSError("network is unreachable")]

        async def main():
            async with Man(mw, "02ac6d28-42d0-41e3-ad22-274d0aa491da", **mw.kw) as man:
                mw.man = man
                sampler = asyncio.ensure_future(mw.sampler(r.choice([0.13, 0.25, 0.5])))
                mw.w.set_regime(regime)
                t0 = mw.w.now
                pending = list(actions)
                users = []
                if pending and isinstance(pending[0][0], tuple):
                    (_, k_), act_ = pending.pop(0)
                    lp = mw.w.loop

                    def fire(act_=act_):
                        users.append(asyncio.ensure_future(man.async_reset() if act_ == "reset" else man.async_set_spa_info(mw.kw["spa_address"], mw.kw["spa_identifier"], mw.kw["spa_name"])))
                        sh.count("user_actions")
                        sh.count("resets_at_a_scheduler_step")

                    lp.step_target = lp.steps_scheduled + k_
                    lp.step_hook = fire
                for ph in phases:
                    mw.set_phase(ph)
                    end = mw.w.now + ph.dur
                    while mw.w.now < end:
                        if pending and pending[0][0] <= mw.w.now - t0:
                            _, act = pending.pop(0)
                            if act == "reset":
                                users.append(asyncio.ensure_future(man.async_reset()))
                            elif act == "button":
                                users.append(asyncio.ensure_future(press_button(man, mw, sh)))
                            elif act == "clear-info":
                                # "forget this spa" (what the sample console's clear command does)
                                users.append(asyncio.ensure_future(man.async_set_spa_info(None, None, None)))
                                sh.count("spa_details_cleared")
                            else:
                                users.append(asyncio.ensure_future(man.async_set_spa_info(mw.kw["spa_address"], mw.kw["spa_identifier"], mw.kw["spa_name"])))
                            sh.count("user_actions")
                        await asyncio.sleep(0.1)
                for u in users:
                    try:
                        await asyncio.wait_for(u, 100)
                    except Exception:
                        pass
                sampler.cancel()
                exited["v"] = True

        try:
            mw.w.run(main())
        except ScenarioHang:
            sh.inconc("scenario hang")
            return
        except Watchdog as e:
            sh.inconc(f"watchdog {e}")
            return
        except OSError:
            pass
        sh.evaluations += 1
        judge(sh, mw, label, suspend, regime, exited["v"])
        sh.see("script_kinds", kind)
        sh.count("client_handler_failures", sum(1 for e in mw.events if e.get("raised")))
        sh.see("snapshots", snapshot[:24])
        sh.see("suspend_modes", suspend)
        sh.nontrivial(label + f":{len(mw.events)}")
        if len(sh.samples) < 2:
            sh.sample({"scenario": label, "regime": regime, "suspend": suspend, "phases": [p.as_list() for p in phases], "actions": actions, "events": [e["event"] for e in mw.events][:40]})
    finally:
        mw.close()


def shard(sh: Shard, seed, lo, hi, tier):
    for idx in range(lo, hi):
        try:
            scenario(sh, seed, idx, tier)
        except Exception as e:
            d = describe_exc(e)
            if d["where"] == "repo":
                sh.violation("C08:raise", f"{d['type']}: {d['msg']} escaped the manager context", d)
            else:
                raise


def main(tier, seed):
    run = Run("C08", tier, seed, "exploration")
    per = 24 if tier == "quick" else 600
    jobs = [{"seed": seed, "lo": i * per, "hi": (i + 1) * per, "tier": tier} for i in range(NCPU)]
    run.absorb(run_shards("checks.c08", "shard", jobs, timeout=3400))
    pairs = run.sets.get("state_event_pairs", set())
    for need in ("CONNECTED+RUNNING_PING_NO_RESPONSE", "CONNECTED+ERROR_RF_ERROR", "CONNECTED+RUNNING_SPA_DISCONNECTED", "LOCATED_SPAS+SPA_NOT_FOUND", "SPA_READY+CONNECTION_FINISHED", "CONNECTING+CONNECTION_PROTOCOL_RETRY_COUNT_EXCEEDED"):
        run.need(need in pairs, f"lifecycle row {need} never exercised")
    for st in ("ERROR_PING_MISSED", "ERROR_RF_FAULT", "ERROR_NEEDS_ATTENTION"):
        run.need(f"{st}+reset-by:ping-received" in pairs, f"recovery row (ping received in {st}) never exercised")
    run.need(run.counters.get("facade_ready_events", 0) > 50 and run.counters.get("facade_teardown_events", 0) > 10 and run.counters.get("resets_returned", 0) > 20, "too few ready/teardown/reset observations")
    run.need(run.counters.get("phases_that_raised", 0) > 0, "no locate/connect phase raised")
    run.extra["distinct_state_event_pairs"] = len(pairs)
    run.extra["distinct_abstract_states"] = len(run.sets.get("abstract_states", set()))
    run.need(run.counters.get("rf_error_escalations_due", 0) >= 1, "no connection saw more RF errors than the escalation limit")
    run.need(run.counters.get("client_handler_failures", 0) >= 5, "too few client handler failures inside locate/connect phases were injected")
    run.need(run.counters.get("resets_made_from_a_client_handler_on_a_connection_task", 0) >= 2, "no reset was made by the client from inside its handler on a task of the connection")
    run.need(run.counters.get("reconnect_button_presses_returned", 0) >= 10 and len(run.sets.get("reconnect_button_from_states", ())) >= 3, "the reconnect button was hardly pressed / from too few states")
    run.need(run.counters.get("set_spa_info_calls_returned", 0) >= 10 and run.counters.get("spa_details_cleared", 0) >= 3, "set-spa-info calls / clearing of the spa details hardly exercised")
    return run.finish(
        rule="scenarios of the real manager against the real simulator: plain connects, outages while connected, RF-error periods, lossy handshakes (retry exhaustion), absent spa, wrong identifier, user resets / set-spa-info at drawn instants (incl. mid-handshake), endpoint creation raising, long mixed scripts; client handlers that never suspend / suspend one tick / seconds / mixed; regimes B/J/H; one evaluation = one scenario trace judged by I1-I7; distinct = distinct scenario traces; coverage of (state,event) pairs and abstract states is reported",
        assumptions=["I7 (transition table) is judged only on runs whose client handlers never suspend", "an open locate/connect bracket at context exit (cancellation) is counted, not flagged"],
    )


def replay(path):
    from vlib.common import replay_args

    return main(*replay_args(path))
