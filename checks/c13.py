"""C13 - facade commands emit exactly the intended device write and are idempotent.

Monitor: command datagrams reaching ModelSpa (decoded independently with struct and
by the library's own handler), the model's block before/after, the number of command
datagrams per facade call (wire log), and the facade device state after the echo.
"""
from __future__ import annotations

import asyncio
import os
import struct

from checks.c12 import REF_DEVICES
from vlib import tables
from vlib.common import NCPU, Run, Shard, describe_exc, rng, run_shards

CMD_VERBS = ("SPACK", "SETWC")


def inner(data):
    i = data.find(b"<DATAS>")
    return data[i + 7 : data.rfind(b"</DATAS>")]


def parse_spack(content):
    seq, pack_type, length, cmd = struct.unpack(">BBBB", content[5:9])
    if cmd == 57:
        return {"kind": "KEY", "seq": seq, "pack_type": pack_type, "len": length, "key": content[9], "rest": content[10:]}
    if cmd == 70:
        cv, lv, pos = struct.unpack(">BBH", content[9:13])
        return {"kind": "SET", "seq": seq, "pack_type": pack_type, "len": length, "cfg": cv, "log": lv, "pos": pos, "data": content[13:]}
    return {"kind": "?", "seq": seq}


async def scenario(sh: Shard, rig, r, label, ncmd):
    from geckolib.automation import GeckoAsyncFacade

    w, spa, sim = rig.w, rig.spa, rig.sim
    tables.install_decl_capture()
    facade = GeckoAsyncFacade(spa, rig.taskman)
    await asyncio.wait_for(facade.wait_for_one_update(), 300)
    await rig.quiesce()
    refs = {t: tables.ref_of(a) for t, a in spa.accessors.items() if hasattr(a, "_verif_decl")}
    tr = rig.transport
    client_parms = None

    async def busy_lock():
        """Make the facade's own periodic query hold the protocol lock for longer than the protocol
        timeout: its reply is lost once, so the command issued next waits behind a retrying request."""
        from geckolib.config import set_config_mode

        state = {"dropped": 0}

        def fault(d):
            if d.dir == "s2c" and d.verb == "WCGET" and state["dropped"] == 0:
                state["dropped"] = 1
                return []
            return None

        w.net.fault = fault
        set_config_mode(any(bool(d.is_on) for d in facade.all_config_change_devices))
        await asyncio.sleep(0.05)
        sh.count("commands_issued_behind_a_busy_lock")

    async def run_cmd(desc, coro, expect):
        """expect: None (nothing may be sent) or dict describing the one command."""
        await rig.quiesce(settle=0.25)
        if expect is not None and expect.get("verb") in ("SET", "KEY") and r.random() < 0.12:
            await busy_lock()
        d0 = len(w.net.dgrams)
        model_before = sim.block
        ncommands0 = len(sim.sim.commands)
        exc = None
        try:
            await coro
        except Exception as e:
            exc = e
        await rig.quiesce(settle=0.3)
        w.net.fault = None
        sent = [d for d in w.net.dgrams[d0:] if d.dir == "c2s" and d.verb in CMD_VERBS]
        sh.evaluations += 1
        wit = {"scenario": label, "command": desc, "sent": [inner(d.data) for d in sent], "snapshot": rig.snapshot_name}
        if exc is not None:
            d = describe_exc(exc)
            sh.violation(f"C13:raise:{desc[0]}", f"{desc}: raised {d['type']}: {d['msg']}", dict(wit, exc=d))
            return None
        if expect is None:
            sh.count("idempotent_calls_checked")
            if sent:
                sh.violation(f"C13:not-idempotent:{desc[0]}", f"{desc}: device already in the requested state but {len(sent)} command datagram(s) were sent", wit)
            return sent
        if len(sent) != 1:
            sh.violation(f"C13:command-count:{desc[0]}", f"{desc}: {len(sent)} command datagrams sent, expected exactly one", wit)
            return sent
        c = inner(sent[0].data)
        sh.count("commands_checked")
        if expect["verb"] == "SETWC":
            if not c.startswith(b"SETWC") or len(c) != 7:
                sh.violation("C13:malformed:SETWC", f"{desc}: malformed watercare command {c!r}", wit)
                return sent
            seq, mode = c[5], c[6]
            if mode != expect["mode"] or not (1 <= seq <= 191):
                sh.violation("C13:watercare-command", f"{desc}: SETWC carries mode {mode} sequence {seq} (expected mode {expect['mode']}, sequence 1..191)", wit)
            if sim.sim.watercare_mode != expect["mode"] or facade.water_care.mode != expect["mode"]:
                sh.violation("C13:watercare-effect", f"{desc}: spa mode {sim.sim.watercare_mode}, facade mode {facade.water_care.mode}", wit)
            return sent
        if not c.startswith(b"SPACK"):
            sh.violation(f"C13:wrong-verb:{desc[0]}", f"{desc}: sent {c[:5]!r}", wit)
            return sent
        p = parse_spack(c)
        wit["decoded"] = {k: (v.hex() if isinstance(v, bytes) else v) for k, v in p.items()}
        if not (192 <= p["seq"] <= 255):
            sh.violation("C13:sequence-range", f"{desc}: pack command carries sequence {p['seq']} (command range is 192..255)", wit)
        if p["pack_type"] != spa.pack_type:
            sh.violation("C13:pack-type", f"{desc}: pack type {p['pack_type']} != connected pack {spa.pack_type}", wit)
        if expect["verb"] == "KEY":
            if p["kind"] != "KEY" or p["key"] != expect["key"] or p["len"] != 2 or p["rest"]:
                sh.violation(f"C13:keypress:{desc[0]}", f"{desc}: expected key press {expect['key']}, got {p}", wit)
        else:
            ref = expect["ref"]
            if p["kind"] != "SET" or (p["cfg"], p["log"]) != (spa.config_version, spa.log_version):
                sh.violation("C13:versions", f"{desc}: command kind {p['kind']} cfg/log {(p.get('cfg'), p.get('log'))} != connected {(spa.config_version, spa.log_version)}", wit)
                return sent
            if p["pos"] != ref.pos or len(p["data"]) != ref.width or p["len"] != 5 + ref.width:
                sh.violation(f"C13:write-geometry:{desc[0]}", f"{desc}: write at {p['pos']} of {len(p['data'])} byte(s), item {ref.tag} is at {ref.pos} width {ref.width}", wit)
                return sent
            newblock = model_before[: p["pos"]] + p["data"] + model_before[p["pos"] + len(p["data"]) :]
            got = ref.decode(newblock, units=expect.get("units"))
            ok = expect["check"](got)
            old_word = int.from_bytes(model_before[ref.pos : ref.pos + ref.width], "big")
            new_word = int.from_bytes(p["data"], "big")
            if not ok:
                sh.violation(f"C13:write-value:{desc[0]}", f"{desc}: applied to the spa's block the write makes {ref.tag} read {got!r}", wit)
            if (old_word ^ new_word) & ~ref.field_mask:
                sh.violation(f"C13:write-clobbers:{desc[0]}", f"{desc}: the write changes bits outside {ref.tag} ({old_word:#x} -> {new_word:#x}, field mask {ref.field_mask:#x}) - other demands in the same byte change in the spa", wit)
        # after the echo the client reads the requested value back
        if "readback" in expect:
            try:
                rb = expect["readback"]()
            except Exception as e:
                rb = e
            if not expect["readback_ok"](rb):
                sh.violation(f"C13:readback:{desc[0]}", f"{desc}: after the spa's echo the facade reads {rb!r}", wit)
            else:
                sh.count("readbacks_ok")
        if spa.struct.status_block != sim.block:
            sh.violation("C13:mirror-after-echo", f"{desc}: client block differs from the spa's after the echo", wit)
        return sent

    def scribble_unrelated_state():
        """'Every current state' includes what has nothing to do with the commanded devices: every item
        of the status block that no device, demand, output, temperature or unit item shares a byte with
        (keypad lock, filter cycles, reminders of all sorts ...) gets a random raw value - in the spa and,
        as a refresh would bring it, in the client."""
        prot_prefix = ("Ud", "Out", "P1", "P2", "P3", "P4", "P5", "BL", "LI", "L1", "Waterfall", "Econ", "Temp", "Setpoint", "RealSetPoint", "Displayed", "Heating", "Cooling", "PackType", "Pack", "Config", "Log", "MS", "Pump", "Blower", "Light")
        protected = set()
        for t_, x_ in refs.items():
            if t_.startswith(prot_prefix) or not x_.inside_block():
                protected |= set(range(x_.pos, x_.pos + x_.width))
        nb = bytearray(sim.block)
        n_ = 0
        for t_, x_ in refs.items():
            bs = set(range(x_.pos, x_.pos + x_.width))
            if x_.inside_block() and not (bs & protected) and x_.pos >= 256:
                word = int.from_bytes(nb[x_.pos : x_.pos + x_.width], "big")
                # mostly a value the item has a label for (each label of each such item gets its turn)
                raw = r.randrange(len(x_.labels)) if (x_.kind == "Enum" and x_.labels and r.random() < 0.75) else r.randrange(x_.mask + 1)
                word = (word & ~x_.field_mask) | ((raw & x_.mask) << x_.shift)
                nb[x_.pos : x_.pos + x_.width] = word.to_bytes(x_.width, "big")
                n_ += 1
        if n_:
            sim.set_block(bytes(nb))
            spa.struct.replace_status_block_segment(0, bytes(nb))
            sh.count("unrelated_state_scribbles")
            sh.maximum("unrelated_items_scribbled", n_)

    if r.random() < 0.6:
        scribble_unrelated_state()
    devices = [("pump", p_) for p_ in facade.pumps] + [("blower", b) for b in facade.blowers] + [("light", l) for l in facade.lights]
    if facade.eco_mode is not None:
        devices.append(("eco", facade.eco_mode))
    heater = facade.water_heater
    for step in range(ncmd):
        choices = ["watercare", "watercare-during-update", "temp", "unit"] + (["device"] * 4 + ["sync-pair"] if devices else [])
        k = r.choice(choices)
        if step % 9 == 4 and r.random() < 0.5:
            await rig.quiesce(settle=0.25)
            scribble_unrelated_state()
        if k == "sync-pair":
            # the facade's plain (non-awaitable) methods hand the work to tasks: two commands of a
            # scene issued back to back, nobody waits in between - both must go out, once each
            onoff = [(t_, d_) for t_, d_ in devices if t_ in ("blower", "light")]
            pumps_ = [(t_, d_) for t_, d_ in devices if t_ == "pump"]
            picks = []
            pool = onoff + pumps_
            r.shuffle(pool)
            def bytes_of(t_, d_):
                # every byte a command to this device reads or writes in the spa's block
                tags = [d_._user_demand["demand"]] if t_ == "pump" else [REF_DEVICES[d_.key][2], "Ud" + d_.key[0] + d_.key[1:].lower(), "Ud" + d_.key]
                out = set()
                for tg in tags:
                    if tg in refs:
                        out |= set(range(refs[tg].pos, refs[tg].pos + refs[tg].width))
                return out

            for t_, d_ in pool:
                if len(picks) == 2:
                    break
                if any(d_ is x[1] for x in picks):
                    continue
                # (two commands that write the same word of the block are a read-modify-write race of
                # the protocol itself, not of the facade: left out)
                if picks and (t_ == "pump" or picks[0][0] == "pump") and bytes_of(t_, d_) & bytes_of(*picks[0]):
                    continue
                picks.append((t_, d_))
            if len(picks) < 2:
                continue
            await rig.quiesce(settle=0.3)
            d0 = len(w.net.dgrams)
            wants = []
            for t_, d_ in picks:
                if t_ == "pump":
                    cur = d_.mode
                    ms = [m for m in dict.fromkeys(d_.modes) if m != "" and m != cur]
                    if not ms:
                        continue
                    m = r.choice(ms)
                    d_.set_mode(m)
                    wants.append((d_.key, lambda a=spa.accessors[d_._user_demand["demand"]], m=m: a.value == m, f"demand {m}"))
                else:
                    on = bool(d_.is_on)
                    (d_.turn_off if on else d_.turn_on)()
                    wants.append((d_.key, lambda d=d_, on=on: bool(d.is_on) == (not on), "on" if not on else "off"))
            await asyncio.sleep(0.05)
            await rig.quiesce(settle=0.4)
            sent = [d for d in w.net.dgrams[d0:] if d.dir == "c2s" and d.verb in CMD_VERBS]
            sh.evaluations += 1
            sh.count("sync_api_command_pairs")
            wit = {"scenario": label, "command": ("sync pair", [(k_, what) for k_, _, what in wants]), "sent": [inner(d.data) for d in sent], "snapshot": rig.snapshot_name}
            if len(sent) != len(wants):
                sh.violation("C13:command-count:sync-pair", f"{len(wants)} plain facade commands issued back to back ({[(k_, what) for k_, _, what in wants]}), {len(sent)} command datagrams sent", wit)
            else:
                bad = [(k_, what) for k_, ok_, what in wants if not ok_()]
                if bad:
                    sh.violation("C13:readback:sync-pair", f"after two plain facade commands issued back to back the facade does not read {bad}", wit)
                else:
                    sh.count("commands_checked", len(wants))
            continue
        if k == "watercare-during-update":
            # the command is issued while the facade's own periodic watercare query is in flight
            # (any device change wakes that loop): afterwards the facade must show the new mode
            from geckolib.config import set_config_mode

            await rig.quiesce(settle=0.25)
            cur = facade.water_care.mode
            mode = (cur + r.randrange(1, 5)) % 5 if isinstance(cur, int) and 0 <= cur < 5 else r.randrange(5)
            d0 = len(w.net.dgrams)
            set_config_mode(any(bool(d.is_on) for d in facade.all_config_change_devices))  # wakes the update loop, table unchanged
            await asyncio.sleep(r.choice([0.0, 0.002, 0.02, 0.05, 0.08]))
            inflight = any(d.dir == "c2s" and d.verb == "GETWC" for d in w.net.dgrams[d0:])
            exc = None
            try:
                await facade.water_care.async_set_mode(mode)
            except Exception as e:  # noqa
                exc = e
            await rig.quiesce(settle=0.4)
            sent = [d for d in w.net.dgrams[d0:] if d.dir == "c2s" and d.verb == "SETWC"]
            sh.evaluations += 1
            sh.count("watercare_during_update" + ("_query_in_flight" if inflight else ""))
            wit = {"scenario": label, "command": ("watercare.set_mode", mode, "during facade update"), "query_in_flight": inflight, "snapshot": rig.snapshot_name}
            if exc is not None:
                sh.violation("C13:raise:watercare.set_mode", f"watercare command during the facade update raised {exc!r}", dict(wit, exc=describe_exc(exc)))
            elif len(sent) != 1:
                sh.violation("C13:command-count:watercare.set_mode", f"{len(sent)} SETWC datagrams for one watercare command issued during the facade update", wit)
            elif sim.sim.watercare_mode != mode or facade.water_care.mode != mode:
                sh.violation("C13:watercare-effect", f"watercare mode {mode} commanded while the facade's own query was outstanding: spa mode {sim.sim.watercare_mode}, facade mode {facade.water_care.mode}", wit)
            else:
                sh.count("commands_checked")
            continue
        if k == "device":
            typ, dev = r.choice(devices)
            sh.see("device_kinds", typ)
            if typ == "pump":
                mode = r.choice(list(dict.fromkeys(dev.modes)))
                ud = dev._user_demand["demand"]
                ref = refs[ud]
                if mode == "":
                    continue
                await run_cmd(("pump.set_mode", dev.key, mode), dev.async_set_mode(mode), {"verb": "SET", "ref": ref, "check": lambda v, m=mode: v == m, "readback": lambda a=spa.accessors[ud]: a.value, "readback_ok": lambda v, m=mode: v == m})
            else:
                want_on = r.random() < 0.5
                is_on = bool(dev.is_on)
                call = dev.async_turn_on() if want_on else dev.async_turn_off()
                desc = (f"{typ}.turn_{'on' if want_on else 'off'}", dev.key, f"was_{'on' if is_on else 'off'}")
                if is_on == want_on:
                    await run_cmd(desc, call, None)
                elif typ == "eco":
                    ref = refs["EconActive"]
                    await run_cmd(desc, call, {"verb": "SET", "ref": ref, "check": lambda v, w_=want_on: v == w_, "readback": lambda d=dev: bool(d.is_on), "readback_ok": lambda v, w_=want_on: v == w_})
                else:
                    key = REF_DEVICES[dev.key][1]
                    await run_cmd(desc, call, {"verb": "KEY", "key": key, "readback": lambda d=dev: bool(d.is_on), "readback_ok": lambda v, w_=want_on: v == w_})
        elif k == "watercare":
            mode = r.randrange(0, 5)
            names = facade.water_care.modes
            if not isinstance(names, (list, tuple)) or len(names) < 5:
                sh.violation("C13:watercare-modes", f"facade.water_care.modes is {names!r}: the five mode names a command can be given by are not offered", {"scenario": label})
                continue
            arg = mode if r.random() < 0.5 else names[mode]
            await run_cmd(("watercare.set_mode", arg), facade.water_care.async_set_mode(arg), {"verb": "SETWC", "mode": mode})
        elif k == "temp" and heater.is_present and "SetpointG" in refs:
            units = refs["TempUnits"].decode(spa.struct.status_block)
            if units == "C":
                t = r.choice([15, 40, 26.5, 37, round(r.uniform(15, 40), 1), r.randrange(270, 721) / 18.0])
                step_ = 1 / 18.0
            else:
                t = r.choice([59, 104, 80, 98.6, round(r.uniform(59, 104), 1), (r.randrange(270, 721) + 320) / 10.0])
                step_ = 0.1
            ref = refs["SetpointG"]
            # the value as a client may hold it: a number, its text (a form field, a CLI), a Decimal
            from decimal import Decimal

            targ = r.choice([t, t, str(t), Decimal(str(t))])
            sh.see("temperature_argument_forms", type(targ).__name__)
            await run_cmd(("heater.set_target_temperature", repr(targ), units), heater.async_set_target_temperature(targ), {"verb": "SET", "ref": ref, "units": units, "check": lambda v, t=t, s=step_: abs(v - t) < s + 1e-9, "readback": lambda: heater.target_temperature, "readback_ok": lambda v, t=t, s=step_: isinstance(v, float) and abs(v - t) < s + 1e-9})
        elif k == "unit" and "TempUnits" in refs:
            u = r.choice(["C", "F", "°C", "°F", "f"])
            want = "F" if u in ("°F", "f", "F") else "C"
            ref = refs["TempUnits"]
            await run_cmd(("heater.set_temperature_unit", u), heater.async_set_temperature_unit(u), {"verb": "SET", "ref": ref, "check": lambda v, w_=want: v == w_, "readback": lambda: heater.temperature_unit, "readback_ok": lambda v, w_=want: v == ("°F" if w_ == "F" else "°C")})
    await facade.disconnect()
    sh.nontrivial(label)


def shard(sh: Shard, seed, lo, hi, ncmd, snaps):
    from vlib.aworld import ScenarioHang, Watchdog, World
    from vlib.modelspa import make_model_class
    from vlib.rig import SpaRig

    Model = make_model_class()
    tables.install_decl_capture()
    for idx in range(lo, hi):
        r = rng("C13", seed, idx)
        snap = snaps[idx % len(snaps)]
        w = World(r, "B", max_iter=8_000_000, wall_cap=600)
        try:
            rig = SpaRig(w, snapshot=snap, sim_cls=Model)
            rig.snapshot_name = os.path.basename(snap)[:40]
            label = f"{seed}:{idx}:{rig.snapshot_name}"

            async def main():
                if not await rig.connect(background=True):
                    sh.inconc("rig could not connect")
                    return
                rig.cancel_tasks(("SPA:Refresh loop",))
                w.set_regime(r.choice(["B", "J"]))
                # one long-lived connection per run: enough commands for the command counter to wrap twice
                await scenario(sh, rig, r, label, 190 if idx == 0 else ncmd)
                if idx == 0:
                    sh.count("long_connection_scenarios")

            try:
                w.run(main())
            except ScenarioHang:
                sh.inconc("scenario hang")
            except Watchdog as e:
                sh.inconc(f"watchdog {e}")
            except asyncio.TimeoutError:
                sh.inconc("facade never became ready")
            except Exception as e:
                d = describe_exc(e)
                if d["where"] == "repo":
                    sh.violation("C13:raise", f"{d['type']}: {d['msg']}", dict(d, snapshot=snap))
                else:
                    raise
            sh.see("snapshots", os.path.basename(snap)[:30])
        finally:
            w.close()
    sh.sample({"commands_per_scenario": ncmd, "snapshot_example": os.path.basename(snaps[lo % len(snaps)])})


def snapshot_files():
    from vlib.aworld import snapshot_dir

    d = snapshot_dir()
    out = []
    for fn in sorted(os.listdir(d)):
        if fn.endswith(".snapshot") and "multicolour" not in fn:
            out.append(os.path.join(d, fn))
    return out


def main(tier, seed):
    run = Run("C13", tier, seed, "exploration")
    snaps = snapshot_files()
    per, ncmd = (6, 16) if tier == "quick" else (150, 24)
    jobs = [{"seed": seed, "lo": i * per, "hi": (i + 1) * per, "ncmd": ncmd, "snaps": snaps} for i in range(NCPU)]
    real = {"res": []}
    th = None
    if tier == "thorough":
        # the real world (thorough tier only: a facade on a real loop needs minutes of real time):
        # real asyncio loop, real UDP on 127.0.0.1, the hardware model on the simulator's engine thread
        import threading

        def real_part():
            real["res"] = run_shards("checks.c13_real", "shard_real", [{"tier": "quick", "seed": seed, "pairs": 8}], timeout=3000, workers=1)

        th = threading.Thread(target=real_part)
        th.start()
    run.absorb(run_shards("checks.c13", "shard", jobs, timeout=3400))
    if th is not None:
        th.join()
        run.absorb(real["res"])
        if not run.counters.get("real_world_unavailable"):
            run.need(run.counters.get("real_commands_ok", 0) >= 20, "the real-UDP part observed too few commands")
    try:
        from checks import c13_threaded

        c13_threaded.add(run, tier, seed)
    except ImportError:
        run.extra["threaded_part"] = "not built yet"
    run.need(run.counters.get("commands_checked", 0) > 300, "too few commands checked")
    run.need(run.counters.get("idempotent_calls_checked", 0) > 40, "too few already-in-state calls checked")
    run.need(run.counters.get("watercare_during_update_query_in_flight", 0) > 20, "too few watercare commands issued while the facade's own query was in flight")
    run.need(run.counters.get("commands_issued_behind_a_busy_lock", 0) > 10, "too few commands issued while the protocol lock was held by a retrying request")
    run.need(run.counters.get("long_connection_scenarios", 0) >= 1, "the long-lived connection scenario (command counter wrap) did not run")
    run.need(run.counters.get("unrelated_state_scribbles", 0) > 20, "the unrelated part of the spa's state was never varied")
    run.need(run.counters.get("sync_api_command_pairs", 0) > 15 and {"str", "Decimal", "float"} <= run.sets.get("temperature_argument_forms", set()), "no back-to-back plain facade commands / temperature argument forms not all driven")
    for k in ("pump", "light", "eco"):
        run.need(k in run.sets.get("device_kinds", set()), f"no {k} command exercised")
    return run.finish(
        rule="command sequences (pump modes, blower/light/eco on and off from both current states, target temperatures across the range in both units incl. representable raw values, temperature unit, watercare 0..4 by number and by name) on a real connected async facade over the shipped snapshot configurations, the peer being ModelSpa (applies writes / toggles on key presses / echoes partial updates / answers SETWC); one evaluation = one facade command; distinct = distinct scenarios (snapshot x seed)",
        assumptions=["ModelSpa is a model of the hardware: a set-value is applied as a store at its position and echoed as position+word records; a key press toggles the device behind the key", "fault-free network: exactly one command datagram per effective command"],
    )


def replay(path):
    from vlib.common import replay_args

    return main(*replay_args(path))
