"""C14 - temperature values, units, limits and heater operation are consistent.

Monitors: (a) every raw word 0..65535 x both units is read through the real
temperature accessor and written back through all write paths (exhaustive);
(b) decimal temperatures on a fine grid: emitted word within one device step and
monotone; (c) the real GeckoWaterHeater on every table pair that has the heater items:
unit symbol, limits and the operation ladder against a reference written from the
statement.
"""
from __future__ import annotations

from decimal import Decimal

from checks.c02 import PATHS, Rig, drive
from checks.c03 import pairs
from vlib import tables
from vlib.common import NCPU, Run, Shard, describe_exc, rng, run_shards


def set_units(rig, block, units):
    uref = tables.ref_of(rig.asyn.accessors["TempUnits"])
    word = int.from_bytes(block[uref.pos : uref.pos + uref.width], "big")
    word = (word & ~uref.field_mask) | (uref.encode(units) << uref.shift)
    return block[: uref.pos] + word.to_bytes(uref.width, "big") + block[uref.pos + uref.width :]


def put_word(block, pos, raw):
    return block[:pos] + raw.to_bytes(2, "big") + block[pos + 2 :]


def shard_exhaustive(sh: Shard, lo, hi, combo, tag):
    """All raw words in [lo,hi) x both units: read, then write the reading back."""
    rig = Rig(*combo)
    ref = tables.ref_of(rig.asyn.accessors[tag])
    base = bytes(1024)
    for units in ("C", "F"):
        ub = set_units(rig, base, units)
        for raw in range(lo, hi):
            sh.evaluations += 1
            b = put_word(ub, ref.pos, raw)
            rig.set_block(b)
            reading = rig.asyn.accessors[tag].value
            r2 = rig.sync.accessors[tag].value
            # integer-exact reference: C reading = raw/18, F reading = (raw+320)/10
            exp = raw / 18.0 if units == "C" else (raw + 320) / 10.0
            if reading != exp or r2 != exp or not isinstance(reading, float):
                sh.violation(f"C14:read:{units}", f"raw {raw} in {units} reads {reading!r}/{r2!r}, expected {exp!r}", {"raw": raw, "units": units, "item": tag})
                continue
            # the presented value is the correctly rounded quotient
            q = Decimal(raw) / Decimal(18) if units == "C" else Decimal(raw + 320) / Decimal(10)
            if abs(Decimal(reading) - q) > Decimal("1e-9"):
                sh.violation(f"C14:read:{units}", f"raw {raw} reads {reading!r}, far from exact {q}", {"raw": raw, "units": units})
            # write back over a different prior word
            rig.set_block(put_word(ub, ref.pos, raw ^ 0x1234))
            for path in PATHS:
                cap, exc = rig.write(path, tag, reading)
                sh.count("writebacks")
                if exc is not None or len(cap) != 1:
                    sh.violation(f"C14:writeback:{units}", f"writing back {reading!r} raised/emitted {exc!r} {cap}", {"raw": raw, "units": units, "path": path})
                    continue
                _, pos, length, val = cap[0]
                if (pos, length, val) != (ref.pos, 2, raw):
                    sh.violation(f"C14:writeback:{units}", f"reading {reading!r} of raw {raw} ({units}) writes back as {(pos, length, val)} via {path}", {"raw": raw, "units": units, "path": path, "emitted": [pos, length, val]})
    sh.nontrivial(f"raw[{lo},{hi})")


def shard_decimals(sh: Shard, combo, tag, seed, part, parts):
    """Decimal temperatures: within one device step of the exact conversion; monotone."""
    rig = Rig(*combo)
    ref = tables.ref_of(rig.asyn.accessors[tag])
    base = bytes(1024)
    r = rng("C14d", seed, part)
    for units, lo, hi, scale, off in (("C", 5, 50, 18, 0), ("F", 40, 125, 10, -320)):
        ub = set_units(rig, base, units)
        rig.set_block(ub)
        # 0.05 grid, split over shards, plus random decimals and string/int forms
        grid = [Decimal(lo) + Decimal("0.05") * k for k in range(int((hi - lo) / Decimal("0.05")) + 1)]
        vals = grid[part::parts]
        vals += [Decimal(str(round(r.uniform(lo, hi), r.choice([1, 2, 3, 6])))) for _ in range(1500)]
        vals.sort()
        for path in PATHS:
            prev = None
            for d in vals:
                sh.evaluations += 1
                form = r.choice(["float", "float", "str", "int" if d == d.to_integral_value() else "float"])
                arg = float(d) if form == "float" else (str(d) if form == "str" else int(d))
                cap, exc = rig.write(path, tag, arg)
                if exc is not None or len(cap) != 1:
                    sh.violation(f"C14:write-raise:{units}", f"writing {arg!r} raised/emitted {exc!r} {cap}", {"value": str(d), "units": units, "path": path})
                    continue
                _, pos, length, val = cap[0]
                exact = d * scale + off  # exact device value (Decimal)
                w = {"value": str(d), "form": form, "units": units, "path": path, "emitted": [pos, length, val], "exact": str(exact)}
                if pos != ref.pos or length != 2 or not isinstance(val, int):
                    sh.violation(f"C14:geometry", f"temperature write emitted {(pos, length, val)}", w)
                    continue
                if abs(Decimal(val) - exact) >= 1:
                    sh.violation(f"C14:step:{units}", f"{d} {units} stored as {val}, more than one device step from exact {exact}", w)
                if exact == exact.to_integral_value() and val != int(exact):
                    sh.violation(f"C14:representable:{units}", f"{d} {units} is representable (raw {exact}) but stored as {val}", w)
                if prev is not None and val < prev[1]:
                    sh.violation(f"C14:monotone:{units}", f"ordering not preserved: {prev[0]} -> {prev[1]} but {d} -> {val}", w)
                prev = (d, val)
                sh.count("decimal_writes")
    sh.nontrivial(f"decimals part {part}")


class _Spa:
    def __init__(self, st):
        self.struct = st
        self.accessors = st.accessors


class _Facade:
    unique_id = "SPA010203040506"
    name = "Test Spa"

    def __init__(self, st):
        self._spa = _Spa(st)
        self.spa = self._spa


def ref_is_on(ref, block):
    v = ref.decode(block)
    if isinstance(v, bool):
        return v
    return v not in ("", "OFF")


def shard_heater(sh: Shard, combos, seed):
    from geckolib.automation import GeckoWaterHeater
    from geckolib.const import GeckoConstants as K

    for combo in combos:
        combo = tuple(combo)
        r = rng("C14h", seed, combo)
        try:
            rig = Rig(*combo)
        except Exception as e:
            sh.count("table_pairs_not_loadable")
            continue
        acc = rig.asyn.accessors
        needed = (K.KEY_TEMP_UNITS, K.KEY_SETPOINT_G, K.KEY_DISPLAYED_TEMP_G, K.KEY_REAL_SETPOINT_G)
        if not all(k in acc for k in needed):
            sh.count("pairs_without_heater_items_skipped")
            continue
        try:
            heater = GeckoWaterHeater(_Facade(rig.asyn))
        except Exception as e:
            sh.count("heater_not_constructible_skipped(C11)")
            continue
        refs = {k: tables.ref_of(acc[k]) for k in acc if k in needed + (K.KEY_HEATING, K.KEY_COOLINGDOWN)}
        hflag, cflag = refs.get(K.KEY_HEATING), refs.get(K.KEY_COOLINGDOWN)
        sh.see("flag_configurations", (hflag is not None and hflag.kind, cflag is not None and cflag.kind))
        raws = [0, 270, 300, 360, 540, 541, 720, 65535]
        base = bytes(r.randrange(256) for _ in range(1024))
        uref = tables.ref_of(acc[K.KEY_TEMP_UNITS])
        unit_settings = ["C", "F"]
        if uref.kind == "Enum" and uref.mask >= 3:
            # the unit field can hold values beyond its two labels (a whole-byte enum: 2..255): whatever
            # the library makes of such a setting, readings, symbol and limits must agree with each other
            unit_settings += [("raw", v) for v in sorted({2, 3, uref.mask, r.randrange(2, uref.mask + 1)})]
        for units in unit_settings:
            if isinstance(units, tuple):
                word = int.from_bytes(base[uref.pos : uref.pos + uref.width], "big")
                word = (word & ~uref.field_mask) | ((units[1] & uref.mask) << uref.shift)
                b0 = base[: uref.pos] + word.to_bytes(uref.width, "big") + base[uref.pos + uref.width :]
                sh.count("heater_with_unit_field_beyond_its_labels")
            else:
                b0 = set_units(rig, base, units)
            # the heater's own setters (blocking and awaitable): a representable reading handed to
            # set_target_temperature writes exactly its word back
            spref = refs[K.KEY_SETPOINT_G]
            if spref.rw is not None and not isinstance(units, tuple):
                conv0 = (lambda x: x / 18.0) if units == "C" else (lambda x: (x + 320) / 10.0)
                for raw in [0, 1, 18, 270, 271, 300, 541, 701, 719, 720] + [r.randrange(270, 721) for _ in range(8)]:
                    bb = put_word(b0, spref.pos, (raw ^ 0x155) & 0xFFFF)
                    if tables.ref_of(acc[K.KEY_TEMP_UNITS]).decode(bb) != units:
                        continue
                    for how in ("set_target_temperature", "async_set_target_temperature"):
                        rig.set_block(bb)
                        rig.cap.clear()
                        sh.evaluations += 1
                        sh.count("heater_setter_writes")
                        try:
                            # (whole numbers also as int and Decimal: 0 degrees is a temperature, not "nothing")
                            val = conv0(raw)
                            if val == int(val) and r.random() < 0.5:
                                from decimal import Decimal

                                val = r.choice([int(val), Decimal(int(val))])
                            if how.startswith("async"):
                                drive(heater.async_set_target_temperature(val))
                            else:
                                heater.set_target_temperature(val)
                        except Exception as e:
                            sh.violation("C14:heater-raise", f"heater.{how}({conv0(raw)}) raised {e!r}", {"tables": combo, "units": units, "raw": raw, "exc": describe_exc(e)})
                            continue
                        got = [(p_, l_, v_) for _, p_, l_, v_ in rig.cap]
                        if got != [(spref.pos, 2, raw)]:
                            sh.violation(f"C14:heater-setter:{units}", f"heater.{how}({conv0(raw)!r}) in {units} (the reading of raw {raw}) emitted {got}, expected one write of {raw} at {spref.pos}", {"tables": combo, "units": units, "raw": raw, "how": how})
            hvals = range(min(4, hflag.mask + 1)) if hflag else [None]
            cvals = range(min(4, cflag.mask + 1)) if cflag else [None]
            for hv in hvals:
                for cv in cvals:
                    for _ in range(10):
                        cur, real, sp = r.choice(raws), r.choice(raws), r.choice(raws)
                        if r.random() < 0.3:
                            real = cur
                        elif r.random() < 0.35:
                            # one device step apart (the two may show as the same tenth of a degree)
                            cur = r.randrange(271, 720)
                            real = cur + r.choice([-1, 1])
                            sh.count("current_and_real_target_one_step_apart")
                        b = b0
                        for ref, raw in ((refs[K.KEY_DISPLAYED_TEMP_G], cur), (refs[K.KEY_REAL_SETPOINT_G], real), (refs[K.KEY_SETPOINT_G], sp)):
                            b = put_word(b, ref.pos, raw)
                        for ref, v in ((hflag, hv), (cflag, cv)):
                            if ref is not None:
                                word = int.from_bytes(b[ref.pos : ref.pos + ref.width], "big")
                                word = (word & ~ref.field_mask) | ((v & ref.mask) << ref.shift)
                                b = b[: ref.pos] + word.to_bytes(ref.width, "big") + b[ref.pos + ref.width :]
                        # items may overlap in odd tables: re-read what the block really says
                        cur = refs[K.KEY_DISPLAYED_TEMP_G].raw(b)
                        real = refs[K.KEY_REAL_SETPOINT_G].raw(b)
                        sp = refs[K.KEY_SETPOINT_G].raw(b)
                        units_now = tables.ref_of(acc[K.KEY_TEMP_UNITS]).decode(b)
                        rig.set_block(b)
                        sh.evaluations += 1
                        w = {"tables": combo, "units": units_now, "heating": hv, "cooling": cv, "current_raw": cur, "real_target_raw": real, "setpoint_raw": sp}
                        try:
                            op = heater.current_operation
                            sym, lo, hi = heater.temperature_unit, heater.min_temp, heater.max_temp
                            tgt, curt, realt = heater.target_temperature, heater.current_temperature, heater.real_target_temperature
                        except Exception as e:
                            sh.violation("C14:heater-raise", f"heater property raised {e!r}", dict(w, exc=describe_exc(e)))
                            continue
                        if units_now not in ("C", "F"):
                            # a setting beyond the labels: the presentation the accessors chose decides
                            shown = "C" if (tgt, curt, realt) == (sp / 18.0, cur / 18.0, real / 18.0) else "F"
                            w["unit_field"] = repr(units_now)
                            w["units"] = units_now = shown
                        conv = (lambda x: x / 18.0) if units_now == "C" else (lambda x: (x + 320) / 10.0)
                        if (tgt, curt, realt) != (conv(sp), conv(cur), conv(real)):
                            sh.violation("C14:heater-temps", f"heater temperatures {(tgt, curt, realt)} != {(conv(sp), conv(cur), conv(real))}", w)
                        exp_sym = "°C" if units_now == "C" else "°F"
                        exp_lim = (15, 40) if units_now == "C" else (59, 104)
                        if sym != exp_sym:
                            sh.violation("C14:symbol", f"unit symbol {sym!r} with unit setting {units_now}", w)
                        if (lo, hi) != exp_lim:
                            sh.violation("C14:limits", f"limits {(lo, hi)} with unit setting {units_now}", w)
                        # reference ladder (from the statement)
                        h_on = ref_is_on(hflag, b) if hflag else None
                        c_on = ref_is_on(cflag, b) if cflag else None
                        if hflag is not None and cflag is not None:
                            exp = "Heating" if h_on else ("Cooling" if c_on else "Idle")
                            sh.count("operation_by_both_flags")
                        elif h_on:
                            exp = "Heating"
                            sh.count("operation_by_single_flag")
                        elif c_on:
                            exp = "Cooling"
                            sh.count("operation_by_single_flag")
                        else:
                            exp = "Heating" if cur < real else ("Cooling" if cur > real else "Idle")
                            sh.count("operation_by_temperatures")
                            sh.see("temp_relation", (cur < real, cur > real, sp < cur, sp > cur))
                        if op != exp:
                            sh.violation("C14:operation", f"operation {op!r}, expected {exp!r} (heating flag {hv}, cooling flag {cv}, current {cur}, real target {real}, setpoint {sp})", w)
        sh.nontrivial(f"heater:{combo}")
    sh.sample({"heater_tables": combos[:2], "grid": "flags x units x 10 temperature triples"})


def main(tier, seed):
    run = Run("C14", tier, seed, "exploration")
    combo, tag = ("inyt", 50, 50), "SetpointG"
    n = NCPU
    step = 65536 // n
    jobs = [{"lo": i * step, "hi": (i + 1) * step, "combo": combo, "tag": tag} for i in range(n)]
    run.absorb(run_shards("checks.c14", "shard_exhaustive", jobs, timeout=1500))
    parts = n if tier == "thorough" else 4
    run.absorb(run_shards("checks.c14", "shard_decimals", [{"combo": combo, "tag": tag, "seed": seed, "part": i, "parts": parts} for i in range(parts)], timeout=1500))
    ps = tables.combos() if tier == "thorough" else pairs()
    run.absorb(run_shards("checks.c14", "shard_heater", [{"combos": ps[i::n], "seed": seed} for i in range(n) if ps[i::n]], timeout=3000))
    run.need(run.counters.get("writebacks", 0) >= 65536 * 2 * 3, "exhaustive write-back incomplete")
    run.need(run.counters.get("current_and_real_target_one_step_apart", 0) > 100 and run.counters.get("heater_with_unit_field_beyond_its_labels", 0) > 20, "adjacent temperatures / unit settings beyond the labels never driven")
    run.need(run.counters.get("operation_by_temperatures", 0) > 100 and run.counters.get("operation_by_both_flags", 0) > 100, "operation ladder branches not all exercised")
    run.need(run.counters.get("decimal_writes", 0) > 1000, "too few decimal writes")
    run.need(run.counters.get("heater_setter_writes", 0) > 500, "the heater setters were hardly exercised")
    run.sample({"exhaustive": "raw 0..65535 x units C,F: read + write-back via 3 paths on inyt-cfg-50/log-50 SetpointG"})
    return run.finish(
        rule="(a) ALL raw words 0..65535 x both units: read through the real accessor and written back through 3 write paths (exhaustive); (b) decimal temperatures on a 0.05 grid over 5..50 C / 40..125 F plus random decimals, as float/str/int forms; (c) the real GeckoWaterHeater on table pairs covering every cfg/log module (thorough: all 895): all flag values x both units x temperature triples; distinct = raw ranges + decimal partitions + heater table pairs",
        assumptions=["C reading = raw/18, F reading = (raw+320)/10 as IEEE doubles; a device step is one raw unit", "pairs on which the heater cannot be constructed are C11's subject and are skipped (counted)"],
        exhaustive=True,
    )


def replay(path):
    from vlib.common import replay_args

    return main(*replay_args(path))
