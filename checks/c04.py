"""C04 - wire format: every message round-trips and is claimed by exactly its verb.

Monitor: send_bytes of every message constructor is compared with an independent
struct.pack of the documented layout, offered to can_handle() of every standard
handler class (framed and inner content), decoded by the claiming class and
compared with the fields it was built from; replies built from decoded parms must be
addressed back.
"""
from __future__ import annotations

import struct
import zlib

from vlib import tables
from vlib.common import NCPU, Run, Shard, describe_exc, rng, run_shards


def handler_families():
    from geckolib import driver as D

    return {
        "hello": [D.GeckoHelloProtocolHandler],
        "packet": [D.GeckoPacketProtocolHandler],
        "ping": [D.GeckoPingProtocolHandler],
        "version": [D.GeckoVersionProtocolHandler],
        "channel": [D.GeckoGetChannelProtocolHandler],
        "configfile": [D.GeckoConfigFileProtocolHandler],
        "statusblock": [D.GeckoStatusBlockProtocolHandler],
        "partial": [D.GeckoPartialStatusBlockProtocolHandler, D.GeckoAsyncPartialStatusBlockProtocolHandler],
        "watercare": [D.GeckoWatercareProtocolHandler],
        "wcerr": [D.GeckoWatercareErrorHandler],
        "firmware": [D.GeckoUpdateFirmwareProtocolHandler],
        "reminders": [D.GeckoRemindersProtocolHandler],
        "rferr": [D.GeckoRFErrProtocolHandler],
        "packcommand": [D.GeckoPackCommandProtocolHandler],
    }


class FakeSock:
    """Minimal stand-in handed to the partial-update handlers (they ack through it)."""

    def __init__(self):
        self.sent = []
        self.n = 0

    def queue_send(self, handler, destination=None):
        self.sent.append((handler.send_bytes, destination))

    def get_and_increment_sequence_counter(self, command):
        self.n = self.n % 191 + 1
        return self.n


def new_handler(cls):
    from geckolib import driver as D

    if cls is D.GeckoHelloProtocolHandler:
        return cls(b"")
    if cls in (D.GeckoPartialStatusBlockProtocolHandler, D.GeckoAsyncPartialStatusBlockProtocolHandler):
        return cls(FakeSock())
    return cls()


def claimants(fams, data, sender):
    out = []
    for fam, classes in fams.items():
        for cls in classes:
            try:
                if new_handler(cls).can_handle(data, sender):
                    out.append(fam)
                    break
            except Exception:
                out.append(fam + "!raise")
    return out


def drive(coro):
    try:
        coro.send(None)
    except StopIteration as e:
        return e.value
    coro.close()
    raise RuntimeError("suspended")


def frame(src, dst, content):
    return b"<PACKT><SRCCN>" + src + b"</SRCCN><DESCN>" + dst + b"</DESCN><DATAS>" + content + b"</DATAS></PACKT>"


def gen_id(r, kind):
    if kind == "ios":
        return b"IOS" + "-".join("".join(r.choice("0123456789abcdef") for _ in range(n)) for n in (8, 4, 4, 4, 12)).encode()
    if kind == "and":
        return b"AND" + "".join(r.choice("0123456789abcdef") for _ in range(16)).encode()
    return b"SPA" + ":".join("%02x" % r.randrange(256) for _ in range(6)).encode()


TAGS = [b"<PACKT>", b"</PACKT>", b"<SRCCN>", b"</SRCCN>", b"<DESCN>", b"</DESCN>", b"<DATAS>", b"</DATAS>", b"<HELLO>", b"</HELLO>", b"\n", b"\r\n", b"|", b"\x00", b"'", b'"', b"\\"]


def gen_payload(r, maxlen=255):
    n = r.choice([0, 1, 2, 39, r.randrange(0, maxlen + 1), maxlen])
    style = r.random()
    if style < 0.45:
        return bytes(r.randrange(256) for _ in range(n))
    out = b""
    while len(out) < n:
        out += r.choice(TAGS) if r.random() < 0.5 else bytes([r.randrange(256)])
    if style > 0.9:
        # the protocol's own framing inside the payload
        out = b"X</SRCCN><DESCN>Y</DESCN><DATAS>" + out
    return out[:maxlen]


class Broken:
    """Placeholder for a message whose builder raised (reported by check_message)."""

    def __init__(self, what, exc):
        self.what, self.exc = what, exc


class _ClassProxy:
    def __init__(self, cls):
        self._cls = cls

    def __call__(self, *a, **k):
        return self._cls(*a, **k)

    def __getattr__(self, name):
        attr = getattr(self._cls, name)
        if not callable(attr):
            return attr

        def guarded(*a, **k):
            try:
                return attr(*a, **k)
            except Exception as e:  # noqa - a builder that raises is a finding, not a harness crash
                return Broken(f"{self._cls.__name__}.{name}{a[:6]!r}", e)

        return guarded


class _DriverProxy:
    """geckolib.driver with every handler class's builders guarded."""

    def __init__(self, D):
        self._D = D

    def __getattr__(self, name):
        attr = getattr(self._D, name)
        return _ClassProxy(attr) if isinstance(attr, type) else attr


def messages(sh, r, D, n_random):
    """Yield (name, family, handler object, expected inner content, fields dict, decode check)."""
    S = struct.pack
    parms = ("10.1.2.3", 10022, b"SPA00:11:22:33:44:55", b"IOSabc")
    seqs = list(range(256))
    for seq in seqs:
        yield "AVERS", "version", D.GeckoVersionProtocolHandler.request(seq, parms=parms), b"AVERS" + S(">B", seq), lambda h, seq=seq: h._sequence == seq
        yield "CURCH", "channel", D.GeckoGetChannelProtocolHandler.request(seq, parms=parms), b"CURCH" + S(">B", seq), lambda h, seq=seq: h._sequence == seq
        yield "SFILE", "configfile", D.GeckoConfigFileProtocolHandler.request(seq, parms=parms), b"SFILE" + S(">B", seq), lambda h, seq=seq: h._sequence == seq
        yield "GETWC", "watercare", D.GeckoWatercareProtocolHandler.request(seq, parms=parms), b"GETWC" + S(">B", seq), lambda h, seq=seq: h._sequence == seq and h.schedule is False
        yield "REQRM", "reminders", D.GeckoRemindersProtocolHandler.request(seq, parms=parms), b"REQRM" + S(">B", seq), lambda h, seq=seq: h._sequence == seq
        yield "UPDTS", "firmware", D.GeckoUpdateFirmwareProtocolHandler.request(seq, parms=parms), b"UPDTS" + S(">B", seq), lambda h, seq=seq: h._sequence == seq
        mode = (seq * 7) % 256
        yield "SETWC", "watercare", D.GeckoWatercareProtocolHandler.set(seq, mode, parms=parms), b"SETWC" + S(">BB", seq, mode), None
        yield "WCGET", "watercare", D.GeckoWatercareProtocolHandler.response(seq, parms=parms), b"WCGET" + S(">B", seq), lambda h, m=seq: h.mode == m
        key = seq
        pt = (seq * 3) % 256
        yield "SPACK-key", "packcommand", D.GeckoPackCommandProtocolHandler.keypress(seq, pt, key, parms=parms), b"SPACK" + S(">BBBBB", seq, pt, 2, 57, key), lambda h, seq=seq, pt=pt, key=key: (h._sequence, h.pack_type, h.is_key_press, h.is_set_value, h.keycode) == (seq, pt, True, False, key)
    yield "APING", "ping", D.GeckoPingProtocolHandler.request(parms=parms), b"APING", lambda h: True
    yield "APING-resp", "ping", D.GeckoPingProtocolHandler.response(parms=parms), b"APING\x00", lambda h: h._sequence == 0
    yield "PACKS", "packcommand", D.GeckoPackCommandProtocolHandler.response(parms=parms), b"PACKS", lambda h: h.should_remove_handler
    yield "SUPDT", "firmware", D.GeckoUpdateFirmwareProtocolHandler.response(parms=parms), b"SUPDT\x00", lambda h: h.should_remove_handler
    yield "RFERR", "rferr", D.GeckoRFErrProtocolHandler.response(parms=parms), b"RFERR", lambda h: h.total_error_count == 1
    yield "WCREQ", "watercare", D.GeckoWatercareProtocolHandler.giveschedule(parms=parms), None, None
    for _ in range(n_random):
        seq = r.randrange(256)
        # set value
        ln = r.choice([1, 2])
        pos = r.choice([0, 1, 255, 256, 1023, 65535, r.randrange(65536)])
        data = r.choice([0, 1, (1 << (8 * ln)) - 1, r.randrange(1 << (8 * ln))])
        pt, cv, lv = r.randrange(256), r.randrange(256), r.randrange(256)
        exp = b"SPACK" + S(">BBBBBBH", seq, pt, 5 + ln, 70, cv, lv, pos) + data.to_bytes(ln, "big")
        yield "SPACK-set", "packcommand", D.GeckoPackCommandProtocolHandler.set_value(seq, pt, cv, lv, pos, ln, data, parms=parms), exp, lambda h, seq=seq, pt=pt, pos=pos, data=data, ln=ln: (h._sequence, h.pack_type, h.is_set_value, h.is_key_press, h.position, h.new_data) == (seq, pt, True, False, pos, data.to_bytes(ln, "big"))
        key2 = r.randrange(256)
        yield "SPACK-key", "packcommand", D.GeckoPackCommandProtocolHandler.keypress(seq, pt, key2, parms=parms), b"SPACK" + S(">BBBBB", seq, pt, 2, 57, key2), lambda h, seq=seq, pt=pt, key=key2: (h._sequence, h.pack_type, h.is_key_press, h.is_set_value, h.keycode) == (seq, pt, True, False, key)
        # status request
        start = r.choice([0, 1, 256, 1023, 65535, r.randrange(65536)])
        length = r.choice([0, 1, 39, 1024, 65535, r.randrange(65536)])
        yield "STATU", "statusblock", D.GeckoStatusBlockProtocolHandler.request(seq, start, length, parms=parms), b"STATU" + S(">BHH", seq, start, length), lambda h, seq=seq, start=start, length=length: (h.sequence, h.start, h.length) == (seq, start, length)
        # status segment
        idx, nxt = r.randrange(256), r.randrange(256)
        block = gen_payload(r)
        yield "STATV", "statusblock", D.GeckoStatusBlockProtocolHandler.response(idx, nxt, block, parms=parms), b"STATV" + S(">BBB", idx, nxt, len(block)) + block, lambda h, idx=idx, nxt=nxt, block=block: (h.sequence, h.next, h.length, h.data) == (idx, nxt, len(block), block)
        # version reply
        en = (r.randrange(65536), r.randrange(256), r.randrange(256))
        co = (r.randrange(65536), r.randrange(256), r.randrange(256))
        yield "SVERS", "version", D.GeckoVersionProtocolHandler.response(en, co, parms=parms), b"SVERS" + S(">HBBHBB", *en, *co), lambda h, en=en, co=co: (h.en_build, h.en_major, h.en_minor, h.co_build, h.co_major, h.co_minor) == en + co
        ch, sig = r.randrange(256), r.randrange(256)
        yield "CHCUR", "channel", D.GeckoGetChannelProtocolHandler.response(ch, sig, parms=parms), b"CHCUR" + S(">BB", ch, sig), lambda h, ch=ch, sig=sig: (h.channel, h.signal_strength) == (ch, sig)
        # reminders
        rem = [(r.randrange(0, 7), r.choice([-32768, -13, -1, 0, 1, 687, 32767, r.randrange(-32768, 32768)])) for _ in range(r.randrange(0, 11))]
        yield "RMREQ", "reminders", D.GeckoRemindersProtocolHandler.response([(D.GeckoReminderType(t), d) for t, d in rem], parms=parms), b"RMREQ" + b"".join(S("<BhB", t, d, 1) for t, d in rem), lambda h, rem=rem: [(int(t), d) for t, d in h.reminders] == rem
        # partial update (4-byte records)
        changes = [(r.choice([0, 1, 1022, r.randrange(1023)]), bytes([r.randrange(256), r.randrange(256)])) for _ in range(r.choice([0, 1, 2, 5, r.randrange(0, 40)]))]
        yield "STATP", "partial", D.GeckoPartialStatusBlockProtocolHandler.report_changes(FakeSock(), changes, parms=parms), b"STATP" + S(">B", len(changes)) + b"".join(S(">H", p) + d for p, d in changes), ("partial", changes)
        one = [(r.randrange(1024), bytes([r.randrange(256)]))]
        yield "STATP-1byte", "partial", D.GeckoPartialStatusBlockProtocolHandler.report_changes(FakeSock(), one, parms=parms), b"STATP\x01" + S(">H", one[0][0]) + one[0][1], ("partial", one)


# requests and the peer's standing traffic only: a handler object that decodes a REPLY marks itself for
# removal and is never offered a second datagram by either engine (single use by design)
LONG_LIVED = {"AVERS", "CURCH", "SFILE", "STATU", "STATV", "GETWC", "REQRM", "UPDTS", "SPACK-key", "SPACK-set", "APING", "APING-resp"}
PERSIST = {}
_FOREIGN = {"n": 0, "verbs": None}


def all_verbs():
    """Every verb constant the protocol modules declare (incl. those no constructor builds)."""
    import importlib
    import pkgutil

    import geckolib.driver.protocol as P

    out = set()
    for m in pkgutil.iter_modules(P.__path__):
        mod = importlib.import_module(f"{P.__name__}.{m.name}")
        for k, v in vars(mod).items():
            if k.endswith("_VERB") and isinstance(v, bytes):
                out.add(v)
    return sorted(out)


def _claims(px, msg, sender):
    try:
        return bool(px.can_handle(msg, sender))
    except Exception:  # noqa
        return False


def foreign_traffic(sh, px, sender):
    """Before every third decode on a long-lived handler: traffic of the other verbs this very
    handler object claims (a peer's standing handler sees all of them, also verbs the library has no
    constructor for), so that a decode does not depend on what the object handled before."""
    _FOREIGN["n"] += 1
    if _FOREIGN["n"] % 3:
        return
    if _FOREIGN["verbs"] is None:
        _FOREIGN["verbs"] = all_verbs()
    k = _FOREIGN["n"] // 3
    mine = _FOREIGN.setdefault(type(px), None)
    if mine is None:
        # the verbs this handler object claims (asked once with a 1-byte payload)
        mine = _FOREIGN[type(px)] = [v for v in _FOREIGN["verbs"] if _claims(px, v + b"\x01", sender)]
    if not mine:
        return
    # one verb per visit, rotating, so that each of them is at some time the LAST thing handled; the
    # payload length a verb nobody builds wants is found by trying
    verb = mine[k % len(mine)]
    for n in (1, 2, 0, 8, 39):
        msg = verb + bytes((k * 5 + j) % 256 for j in range(n))
        try:
            px.handle(msg, sender)
            sh.see("foreign_verbs_fed_to_long_lived_handlers", f"{type(px).__name__}:{verb.decode()}:{n}-byte payload")
            return
        except Exception:  # noqa - wrong payload size for that verb: try the next
            continue
    sh.count("foreign_traffic_raised_not_judged")



def check_message(sh, fams, D, name, fam, h, exp_inner, dec, sender, ids):
    src, dst = ids  # ids the message was built with: parms[3] is our id (source), parms[2] the peer's (destination)
    sh.evaluations += 1
    sh.see("message_kinds", name)
    if isinstance(h, Broken):
        d = describe_exc(h.exc)
        sh.violation(f"C04:build-raise:{name}", f"building {name} with in-range field values raised {d['type']}: {d['msg']} ({h.what})", d)
        return
    try:
        wire = h.send_bytes
    except Exception as e:
        sh.violation(f"C04:build-raise:{name}", f"building {name} raised {e!r}", describe_exc(e))
        return
    sh.nontrivial(f"{name}:{zlib.crc32(wire) % 2048}")
    w = {"message": name, "wire": wire[:120]}
    inner = wire[len(b"<PACKT><SRCCN>") + len(src) + len(b"</SRCCN><DESCN>") + len(dst) + len(b"</DESCN><DATAS>") : -len(b"</DATAS></PACKT>")]
    if exp_inner is None:
        exp_inner = inner  # layout not specified by a struct format (WCREQ blob): claim only
    if wire != frame(src, dst, exp_inner):
        sh.violation(f"C04:layout:{name}", f"{name} wire bytes differ from the documented layout", dict(w, expected=frame(src, dst, exp_inner)[:120]))
        return
    # (b) claiming: framed -> packet only; inner -> exactly the verb's family
    cf = claimants(fams, wire, sender)
    if cf != ["packet"]:
        sh.violation(f"C04:claim-framed:{name}", f"framed {name} claimed by {cf}", w)
    ci = claimants(fams, inner, sender)
    verb = inner[:5].decode("latin1")
    if ci != [fam]:
        if not ci:
            sh.violation(f"C04:verb-unclaimed:{verb}", f"{verb} message is claimed by no standard handler class", w)
        else:
            sh.violation(f"C04:claim:{verb}", f"{verb} content claimed by {ci}, expected [{fam}]", w)
        return
    sh.count("claims_checked")
    if dec is None:
        return
    # (c) decode
    # inner content is dispatched with the 4-tuple parms of its frame, as the library does
    sender = (sender[0], sender[1], dst, src)
    for cls in fams[fam]:
        rx = new_handler(cls)
        try:
            if hasattr(rx, "_protocol") and cls.__name__.startswith("GeckoAsyncPartial"):
                drive(rx.async_handle(inner, sender))
            else:
                rx.handle(inner, sender)
        except Exception as e:
            sh.violation(f"C04:decode-raise:{name}", f"decoding {name} raised {e!r}", dict(w, exc=describe_exc(e)))
            continue
        if isinstance(dec, tuple):
            changes = dec[1]
            ok = [(p, d) for p, d in rx.changes] == changes
            sock = rx._protocol if hasattr(rx, "_protocol") else rx._socket
            if len(sock.sent) != 1 or b"STATQ" not in sock.sent[0][0]:
                sh.violation("C04:statq", f"{name}: acknowledgement datagrams {sock.sent}", w)
            else:
                # the acknowledgement is a message the library builds: layout, claim, decode
                aw = sock.sent[0][0]
                ai = aw[aw.find(b"<DATAS>") + 7 : aw.rfind(b"</DATAS>")]
                aseq = sock.n
                if ai != b"STATQ" + bytes([aseq]) or not aw.startswith(b"<PACKT><SRCCN>"):
                    sh.violation("C04:layout:STATQ", f"acknowledgement {aw!r:.120} is not a framed STATQ + sequence byte {aseq}", w)
                elif claimants(fams, ai, sender) != ["partial"]:
                    sh.violation("C04:claim:STATQ", f"STATQ content claimed by {claimants(fams, ai, sender)}", w)
                else:
                    for acls in fams["partial"]:
                        ax = new_handler(acls)
                        try:
                            if acls.__name__.startswith("GeckoAsyncPartial"):
                                drive(ax.async_handle(ai, sender))
                            else:
                                ax.handle(ai, sender)
                            okq = getattr(ax, "sequence", None) == aseq
                        except Exception as e:
                            okq = False
                            w = dict(w, exc=describe_exc(e))
                        sh.count("statq_decodes")
                        if not okq:
                            sh.violation("C04:roundtrip:STATQ", f"STATQ with sequence {aseq} decodes to sequence {getattr(ax, 'sequence', None)!r} on {acls.__name__}", w)
        else:
            ok = bool(dec(rx))
        if not ok:
            sh.violation(f"C04:roundtrip:{name}", f"{name} does not decode to the fields it was built from", dict(w, decoded={k: v for k, v in vars(rx).items() if not k.startswith("_on")}))
        else:
            sh.count("roundtrips_ok")
        # the whole receive path of the blocking engine: the framed datagram handed to a real
        # GeckoUdpSocket's dispatcher (no thread), unwrapped by its packet handler and dispatched
        # again to the verb's handler registered on the same socket
        if not isinstance(dec, tuple) and not cls.__name__.startswith("GeckoAsync"):
            try:
                eng = D.GeckoUdpSocket()
                eng.add_receive_handler(D.GeckoPacketProtocolHandler(socket=eng))
                ex = new_handler(cls)
                eng.add_receive_handler(ex)
                eng.dispatch_recevied_data(wire, (sender[0], sender[1]))
                oke = bool(dec(ex))
            except Exception as e:
                sh.violation(f"C04:decode-raise:{name}", f"decoding {name} through the engine's dispatcher raised {e!r}", dict(w, exc=describe_exc(e)))
                oke = True
            sh.count("engine_path_decodes")
            if not oke:
                sh.violation(f"C04:roundtrip-engine:{name}", f"{name} received through a real GeckoUdpSocket dispatcher (frame unwrapped and re-dispatched) does not decode to the fields it was built from", dict(w, decoded={k: v for k, v in vars(ex).items() if not k.startswith("_on")}))
        # long-lived instance, as the peer's standing handlers and the threaded client's
        # request handlers are: decode a whole sequence of messages on ONE object
        if name in LONG_LIVED and not isinstance(dec, tuple):
            px = PERSIST.get(cls)
            if px is None:
                px = PERSIST[cls] = new_handler(cls)
            foreign_traffic(sh, px, sender)
            try:
                if not px.can_handle(inner, sender):
                    sh.violation(f"C04:claim-reused:{verb}", f"a long-lived {cls.__name__} that has handled earlier messages no longer claims {verb}", w)
                    continue
                px.handle(inner, sender)
                okp = bool(dec(px))
            except Exception as e:
                sh.violation(f"C04:decode-raise:{name}", f"decoding {name} on a reused handler raised {e!r}", dict(w, exc=describe_exc(e)))
                continue
            sh.count("reused_handler_decodes")
            if not okp:
                sh.violation(f"C04:roundtrip-reused:{name}", f"{name} decoded on a long-lived handler (after other messages of its family) does not give the fields it was built from", dict(w, decoded={k: v for k, v in vars(px).items() if not k.startswith("_on")}))


def shard_messages(sh: Shard, seed, n_random):
    from geckolib import driver as D

    fams = handler_families()
    r = rng("C04m", seed)
    sender = ("10.1.2.3", 10022)
    for name, fam, h, exp, dec in messages(sh, r, _DriverProxy(D), n_random):
        check_message(sh, fams, D, name, fam, h, exp, dec, sender, (b"IOSabc", b"SPA00:11:22:33:44:55"))
    sh.nontrivial(f"messages:{seed}")


def shard_framing(sh: Shard, seed, n):
    """Packet framing with arbitrary payloads and identifier pairs; reply addressing."""
    from geckolib import driver as D

    fams = handler_families()
    r = rng("C04f", seed)
    # one long-lived receiving handler as hosted by a socket / the simulator: few identifier
    # pairs and few addresses, so the same identifiers arrive from different addresses
    dispatched = []

    class _Sock:
        def dispatch_recevied_data(self, content, parms):
            dispatched.append((content, parms))

    rx_long = D.GeckoPacketProtocolHandler()
    rx_long._socket = _Sock()
    # a long-lived responder: carries its answer, takes its addressing from what it received last
    responder = D.GeckoPacketProtocolHandler(content=b"APING\x00")
    id_pool = [(gen_id(r, r.choice(["ios", "and"])), gen_id(r, "spa")) for _ in range(3)]
    addr_pool = [("10.9.0.%d" % r.randrange(1, 255), r.randrange(1024, 65536)) for _ in range(3)] + [("10.9.0.7", 10022), ("10.9.0.7", 51000)]
    for i in range(n):
        sh.evaluations += 1
        if r.random() < 0.6:  # runs of frames with the same identifiers, from varying addresses
            cli, spa = r.choice(id_pool)
            sender = r.choice(addr_pool)
        else:
            cli, spa = gen_id(r, r.choice(["ios", "and"])), gen_id(r, "spa")
            sender = (f"10.0.{r.randrange(256)}.{r.randrange(1, 255)}", r.choice([10022, r.randrange(1024, 65536)]))
        if i % 11 == 7:
            # an identifier that contains the closing tag of its OWN field (the frame stays decodable:
            # the real end of the field is the closing tag directly followed by the next opening tag)
            if r.random() < 0.5:
                spa = spa[:3] + b"</SRCCN>" + spa[3:]
            else:
                cli = cli[:3] + b"</DESCN>" + cli[3:]
            sh.count("identifiers_containing_their_own_closing_tag")
        payload = gen_payload(r)
        # the spa sends `payload` to the client
        tx = D.GeckoPacketProtocolHandler(content=payload, parms=("x", 0, cli, spa))
        wire = tx.send_bytes
        w = {"payload": payload[:80], "src": spa, "dst": cli}
        if wire != frame(spa, cli, payload):
            sh.violation("C04:layout:PACKT", "packet frame differs from the documented layout", w)
            continue
        if claimants(fams, wire, sender) != ["packet"]:
            sh.violation("C04:claim-framed:PACKT", f"frame claimed by {claimants(fams, wire, sender)}", w)
        rx = D.GeckoPacketProtocolHandler()
        try:
            rx.handle(wire, sender)
        except Exception as e:
            sh.violation("C04:frame:raise", f"frame decode raised {e!r}", dict(w, exc=describe_exc(e)))
            continue
        sh.nontrivial(f"frame:{zlib.crc32(wire) % 2048}")
        tagged = any(t in payload for t in TAGS[:8])
        sh.count("payloads_with_protocol_tags" if tagged else "payloads_plain")
        if rx.packet_content != payload or rx.parms != (sender[0], sender[1], spa, cli):
            sh.violation("C04:frame:misframed", f"frame decodes to parms {rx.parms} content {rx.packet_content!r:.60}, built from src {spa} dst {cli} payload {payload!r:.60}", w)
            continue
        sh.count("frames_ok")
        # the same frame on the long-lived handler: parms (and what it dispatches) follow THIS sender
        del dispatched[:]
        try:
            rx_long.handle(wire, sender)
            want = (sender[0], sender[1], spa, cli)
            dp = [tuple(p) for c, p in dispatched]
            if tuple(rx_long.parms) != want or dp != [want] or dispatched[0][0] != payload:
                sh.violation("C04:frame-reused:parms", f"long-lived packet handler: frame from {sender} src {spa} dst {cli} gives parms {rx_long.parms}, dispatches {dp}; a reply would go to {tuple(rx_long.parms)[:2]}", w)
            else:
                sh.count("frames_on_long_lived_handler_ok")
            lr = D.GeckoPingProtocolHandler.response(parms=rx_long.parms)
            if lr.send_bytes != frame(cli, spa, b"APING\x00") or tuple(lr.parms[0:2]) != sender:
                sh.violation("C04:reply-addressing:reused", f"reply built on a long-lived handler to {sender} is addressed to {tuple(lr.parms[0:2])}", w)
        except Exception as e:
            sh.violation("C04:frame-reused:raise", f"long-lived packet handler raised {e!r}", dict(w, exc=describe_exc(e)))
        try:
            responder.handle(wire, sender)
            a1 = responder.send_bytes
            a2 = responder.send_bytes
            if a1 != frame(cli, spa, b"APING\x00") or a2 != a1 or tuple(responder.parms[0:2]) != sender:
                sh.violation("C04:reply-addressing:responder", f"a long-lived packet handler carrying an answer, after a frame from {sender} src {spa} dst {cli}, sends {a1!r:.100} to {tuple(responder.parms[0:2])}", w)
            else:
                sh.count("responder_replies_addressed_back")
        except Exception as e:
            sh.violation("C04:frame-reused:raise", f"long-lived responding packet handler raised {e!r}", dict(w, exc=describe_exc(e)))
        # (d) a reply built from the decoded parms is addressed back with ids swapped
        reply = D.GeckoPingProtocolHandler.response(parms=rx.parms)
        rwire = reply.send_bytes
        if rwire != frame(cli, spa, b"APING\x00") or reply.parms[0:2] != sender:
            sh.violation("C04:reply-addressing", f"reply to src {spa} dst {cli} from {sender} is {rwire!r:.100} parms {reply.parms}", w)
        else:
            sh.count("replies_addressed_back")
    sh.nontrivial(f"framing:{seed}")
    sh.sample({"part": "framing", "example_payload": gen_payload(r)[:40]})


def shard_hello(sh: Shard, seed, n):
    from geckolib import driver as D

    fams = handler_families()
    r = rng("C04h", seed)
    sender = ("10.0.0.9", 10022)

    def one(name, h, expect_wire, chk):
        sh.evaluations += 1
        wire = h.send_bytes
        w = {"message": name, "wire": wire[:100]}
        if wire != expect_wire:
            sh.violation(f"C04:layout:{name}", f"{name} wire bytes differ from the documented layout", w)
            return
        c = claimants(fams, wire, sender)
        if c != ["hello"]:
            sh.violation(f"C04:claim:{name}", f"{name} claimed by {c}", w)
            return
        rx = D.GeckoHelloProtocolHandler(b"")
        try:
            rx.handle(wire, sender)
            ok = chk(rx)
        except Exception as e:
            sh.violation("C04:hello:raise", f"decoding {name} raised {type(e).__name__}: {e}", dict(w, exc=describe_exc(e)))
            return
        if not ok:
            sh.violation(f"C04:roundtrip:{name}", f"{name} does not decode to the fields it was built from", dict(w, spa_id=rx._spa_identifier, name=rx._spa_name))
        else:
            sh.count("hello_roundtrips_ok")

    one("HELLO-broadcast", D.GeckoHelloProtocolHandler.broadcast(), b"<HELLO>1</HELLO>", lambda h: h.was_broadcast_discovery)
    alphabet = [chr(c) for c in range(32, 127)] + [chr(c) for c in range(160, 256)]
    for i in range(n):
        cid = gen_id(r, r.choice(["ios", "and"]))
        one("HELLO-client", D.GeckoHelloProtocolHandler.client(cid), b"<HELLO>" + cid + b"</HELLO>", lambda h, cid=cid: h.client_identifier == cid and not h.was_broadcast_discovery)
        sid = gen_id(r, "spa")
        if i % 4 == 3:
            # not every spa identifier is SPA<mac>: anything that is not a client identifier,
            # also one whose first letters resemble a client prefix in another case
            sid = r.choice([b"ios", b"iOS", b"Ios", b"and", b"And", b"android-", b"Andromeda ", b"spa", b"X", b"io", b"an"]) + gen_id(r, "spa")[3:]
            sh.count("spa_identifiers_not_of_the_usual_shape")
        style = r.random()
        if style < 0.4:
            name = "".join(r.choice("abcdefghijklmnopqrstuvwxyz ABC") for _ in range(r.randrange(1, 20)))
            sh.count("names_ascii")
        elif style < 0.7:
            name = "".join(r.choice(alphabet) for _ in range(r.randrange(1, 24))).replace("|", "")
            sh.count("names_latin1")
        else:
            name = "".join(r.choice(alphabet) for _ in range(r.randrange(0, 12))) + "|" + "".join(r.choice(alphabet) for _ in range(r.randrange(0, 12)))
            sh.count("names_with_separator")
        if i % 5 == 2:
            # names (and identifiers) in which the client prefixes occur as ordinary letters
            w_ = r.choice(["IOS", "AND", "GRAND spa", "STUDIOS", "HOT AND COLD", "Spa BIOS 2", "ANDROMEDA", "IOS"])
            k_ = r.randrange(0, len(name) + 1)
            name = name[:k_] + w_ + name[k_:]
            if r.random() < 0.3:
                sid = sid + r.choice([b"-AND", b"IOS", b"-BRAND"])
            sh.count("names_containing_the_client_prefixes")
        one("HELLO-response", D.GeckoHelloProtocolHandler.response(sid, name), b"<HELLO>" + sid + b"|" + name.encode("latin1") + b"</HELLO>", lambda h, sid=sid, name=name: (h.spa_identifier, h.spa_name) == (sid, name))
    sh.nontrivial(f"hello:{seed}")


def shard_files(sh: Shard):
    """Every shipped platform name x its config/log versions through FILES."""
    from geckolib import driver as D
    from geckolib.driver import GeckoAsyncStructure

    fams = handler_families()
    st = GeckoAsyncStructure(None, None)
    for plat, c, l in tables.combos():
        sh.evaluations += 1
        name = tables.import_stem(plat).GeckoPack(st).name
        h = D.GeckoConfigFileProtocolHandler.response(name, c, l, parms=("x", 0, b"SPAid", b"IOSid"))
        exp = b"FILES" + f",{name}_C{c:02}.xml,{name}_S{l:02}.xml".encode("latin1")
        check_message(sh, fams, D, "FILES", "configfile", h, exp, lambda rx, name=name, c=c, l=l: (rx.plateform_key, rx.config_version, rx.log_version) == (name, c, l), ("1.2.3.4", 10022), (b"IOSid", b"SPAid"))
        sh.see("platform_names", name)
    sh.nontrivial("files")


def main(tier, seed):
    run = Run("C04", tier, seed, "exploration")
    k = 1 if tier == "quick" else 30
    jobs = []
    res = []
    res += run_shards("checks.c04", "shard_messages", [{"seed": seed * 100 + i, "n_random": 600 * k} for i in range(6)], timeout=1500)
    res += run_shards("checks.c04", "shard_framing", [{"seed": seed * 100 + i, "n": 6000 * k} for i in range(6)], timeout=1500)
    res += run_shards("checks.c04", "shard_hello", [{"seed": seed * 100 + i, "n": 1500 * k} for i in range(3)], timeout=1500)
    res += run_shards("checks.c04", "shard_files", [{}], timeout=1500)
    run.absorb(res)
    kinds = run.sets.get("message_kinds", set())
    for m in ("AVERS", "SVERS", "CURCH", "CHCUR", "SFILE", "FILES", "STATU", "STATV", "STATP", "STATP-1byte", "SPACK-key", "SPACK-set", "PACKS", "GETWC", "SETWC", "WCGET", "WCREQ", "REQRM", "RMREQ", "UPDTS", "SUPDT", "RFERR", "APING", "APING-resp"):
        run.need(m in kinds, f"message kind {m} never built")
    run.need(run.counters.get("payloads_with_protocol_tags", 0) > 500, "too few tag-bearing payloads framed")
    run.need(run.counters.get("names_with_separator", 0) > 100, "too few spa names with the separator character")
    run.need(run.counters.get("replies_addressed_back", 0) > 1000, "reply addressing hardly exercised")
    return run.finish(
        rule="every message constructor of the library: sequence/mode/key fields exhaustively 0..255, other fields at corners + seeded random values, payloads of 0..255 arbitrary bytes including newlines, quotes and the protocol's own tags, reminder lists of 0..10 records with signed days, every shipped platform name x config x log version, spa names incl. '|' and non-ASCII latin-1, realistic IOS/AND/SPA identifier pairs; one evaluation = one message built, laid out, claimed, decoded; distinct = distinct (message kind, crc32(wire) mod 2048) classes actually built",
        assumptions=["documented layouts re-packed with struct in the harness", "identifiers are realistic IOS<uuid>/AND<hex>/SPA<mac> shapes, also with the closing tag of their own field inside; identifiers containing a whole field boundary (closing tag followed by the next opening tag) are out of scope: no parser can tell", "reminder types 0..6 are the in-range types"],
    )


def replay(path):
    from vlib.common import replay_args

    return main(*replay_args(path))
