"""C16 (c): sequence byte of every sequence-bearing datagram the async and the threaded
client put on the wire: pack commands 192..255, every other request 1..191; long enough
for both counters to wrap on the wire."""
from __future__ import annotations

import asyncio

from vlib.common import Shard, describe_exc, rng, run_shards

PROTOCOL_VERBS = ("AVERS", "CURCH", "SFILE", "STATU", "STATQ", "GETWC", "SETWC", "REQRM", "UPDTS", "REQWC")


def judge(sh, kind, dgrams, chain=None):
    """dgrams: list of (verb, data); chain: name of the connection when the datagrams are ALL the
    sequence-bearing datagrams of one fault-free connection (successor clause judged on the wire)"""
    seen = {"command": [], "protocol": []}
    for verb, data in dgrams:
        i = data.find(b"<DATAS>") + 7
        if verb == "SPACK":
            seq = data[i + 5]
            seen["command"].append(seq)
            sh.evaluations += 1
            if not (192 <= seq <= 255):
                sh.violation(f"C16:wire:{kind}:SPACK", f"{kind} client: pack command on the wire with sequence {seq} (command range is 192..255)", {"datagram": data[i : i + 16]})
        elif verb in PROTOCOL_VERBS:
            seq = data[i + 5]
            seen["protocol"].append(seq)
            sh.evaluations += 1
            if not (1 <= seq <= 191):
                sh.violation(f"C16:wire:{kind}:{verb}", f"{kind} client: {verb} on the wire with sequence {seq} (protocol range is 1..191)", {"datagram": data[i : i + 16]})
            sh.see(f"wire_verbs_{kind}", verb)
    if chain:
        # one connection, fault-free: every number handed out goes onto the wire, so each datagram of a
        # kind carries the successor of the previous one, starting at the cycle's first value
        for k, first, succ in (("protocol", 1, lambda a: a % 191 + 1), ("command", 192, lambda a: (a - 191) % 64 + 192)):
            lst = seen[k]
            if lst and lst[0] != first:
                sh.violation(f"C16:wire:{kind}:first-{k}", f"{kind} client ({chain}): the first {k} number of the connection on the wire is {lst[0]}, the cycle starts at {first}", {"first_numbers": lst[:6]})
            bad = [(a, b) for a, b in zip(lst, lst[1:]) if b != succ(a)]
            if bad:
                sh.violation(f"C16:wire:{kind}:successor-{k}", f"{kind} client ({chain}): {k} numbers on the wire {bad[:4]} are not successors ({len(bad)} of {len(lst)})", {"pairs": bad[:8]})
            sh.counters[f"wire_{kind}_{k}_successor_pairs"] = sh.counters.get(f"wire_{kind}_{k}_successor_pairs", 0) + max(0, len(lst) - 1)
    for k, lst in seen.items():
        wraps = sum(1 for a, b in zip(lst, lst[1:]) if b < a)
        sh.counters[f"wire_{kind}_{k}_datagrams"] = sh.counters.get(f"wire_{kind}_{k}_datagrams", 0) + len(lst)
        sh.counters[f"wire_{kind}_{k}_wraps"] = sh.counters.get(f"wire_{kind}_{k}_wraps", 0) + wraps


def shard_async(sh: Shard, seed):
    from geckolib.automation import GeckoAsyncFacade
    from vlib.aworld import ScenarioHang, Watchdog, World
    from vlib.modelspa import make_model_class
    from vlib.rig import SpaRig

    r = rng("C16w", seed)
    w = World(r, "B", max_iter=10_000_000, wall_cap=600)
    try:
        rig = SpaRig(w, snapshot="inYT-Pump1Lo-2020-12-13 11_19_35.snapshot", sim_cls=make_model_class())

        async def main():
            if not await rig.connect(background=True):
                sh.inconc("rig could not connect")
                return
            spa = rig.spa
            facade = GeckoAsyncFacade(spa, rig.taskman)
            await asyncio.wait_for(facade.wait_for_one_update(), 300)
            for i in range(210):
                if i in (5, 77):
                    rig.protocol.error_received(ConnectionRefusedError(111, "Connection refused"))
                    sh.count("error_received_events")
                await spa.async_get_watercare()
                if i % 3 == 0:
                    await spa.async_get_reminders()
                if i % 3 == 1:
                    await facade.water_care.async_set_mode(i % 5)
            for i in range(75):
                if facade.pumps:
                    p = facade.pumps[i % len(facade.pumps)]
                    await p.async_set_mode(p.modes[i % len([m for m in p.modes if m])])
                if facade.lights and i % 4 == 0:
                    await (facade.lights[0].async_turn_on() if i % 8 else facade.lights[0].async_turn_off())
                await spa.async_press(1 + i % 3)
            await asyncio.sleep(130)  # a periodic refresh + channel query
            await facade.disconnect()
            await rig.close()
            await asyncio.sleep(1)
            sh.count("first_connection_endpoint_closed_before_the_second", 1 if rig.transport is None or rig.transport.closed else 0)
            # a second connection of the same process, made after the first one is gone (no discovery
            # in between), to another spa: its numbering is its own
            rig2 = SpaRig(w, snapshot="default.snapshot", sim_cls=make_model_class(), addr=("10.0.0.2", 10022))
            if not await rig2.connect(background=True):
                sh.count("second_connection_failed")
                return
            for i in range(12):
                await rig2.spa.async_get_watercare()
                if i == 3:
                    # the OS reports a refused datagram (ICMP) - asyncio tells the protocol object
                    rig2.protocol.error_received(ConnectionRefusedError(111, "Connection refused"))
                    sh.count("error_received_events")
                await rig2.spa.async_press(1 + i % 3)
            await rig2.close()
            sh.count("second_connections")

        try:
            w.run(main())
        except (ScenarioHang, Watchdog) as e:
            sh.inconc(type(e).__name__)
            return
        judge(sh, "async", [(d.verb, d.data) for d in w.net.dgrams if d.dir == "c2s" and d.dst == ("10.0.0.1", 10022)], chain="first connection")
        second = [(d.verb, d.data) for d in w.net.dgrams if d.dir == "c2s" and d.dst == ("10.0.0.2", 10022)]
        if second:
            judge(sh, "async", second, chain="second connection of the process")
        sh.nontrivial("wire:async")
    except Exception as e:
        d = describe_exc(e)
        if d["where"] == "repo":
            sh.violation("C16:wire:async:raise", f"{d['type']}: {d['msg']}", d)
        else:
            raise
    finally:
        w.close()


def shard_threaded(sh: Shard, seed):
    from geckolib.driver import GeckoPartialStatusBlockProtocolHandler as P
    from vlib.modelspa import make_model_class
    from vlib.trig import TRig
    from vlib.vthreads import Deadlock, Stuck

    r = rng("C16wt", seed)
    rig = TRig(r, snapshot="inYT-Pump1Lo-2020-12-13 11_19_35.snapshot", sim_cls=make_model_class())
    try:
        if not rig.connect(facade=True, timeout=90):
            sh.inconc("threaded facade did not connect")
            return
        spa, facade, s = rig.spa, rig.facade, rig.s
        for i in range(70):
            if facade.pumps:
                p = facade.pumps[i % len(facade.pumps)]
                p.set_mode([m for m in p.modes if m][i % len([m for m in p.modes if m])])
            spa.press(1 + i % 3)
            if facade.eco_mode is not None and i % 5 == 0:
                (facade.eco_mode.turn_on if not facade.eco_mode.is_on else facade.eco_mode.turn_off)()
            facade.water_care.set_mode(i % 5)
            rig.sim_say(P.report_changes(rig.sim._socket, [(400 + i, bytes([i, i]))], parms=rig.client_parms))
            if i % 2 == 0:
                type(spa).refresh(spa)  # the class's refresh (the rig silences the ping thread's periodic one)
            facade.water_care._water_care_handler = None
            facade.water_care.update()
            facade._reminders.update()
            s.sleep(0.6)
        rig.quiesce(limit=20)
        judge(sh, "threaded", [(x["verb"], x["data"]) for x in rig.c2s()])
        sh.nontrivial("wire:threaded")
    except (Deadlock, Stuck) as e:
        sh.inconc(f"{type(e).__name__}: {e}")
    except Exception as e:
        d = describe_exc(e)
        if d["where"] == "repo":
            sh.violation("C16:wire:threaded:raise", f"{d['type']}: {d['msg']}", d)
        else:
            raise
    finally:
        rig.close()


def add(run, tier, seed):
    n = 1 if tier == "quick" else 4
    res = run_shards("checks.c16_wire", "shard_async", [{"seed": seed * 10 + i} for i in range(n)], timeout=1500)
    res += run_shards("checks.c16_wire", "shard_threaded", [{"seed": seed * 10 + i} for i in range(n)], timeout=1500)
    run.absorb(res)
    run.need(run.counters.get("second_connections", 0) >= 1 and run.counters.get("error_received_events", 0) >= 2, "wire: no second connection in one process / no OS error reported to a connection")
    run.need(run.counters.get("wire_async_protocol_successor_pairs", 0) > 200, "wire: successor clause hardly judged on the wire")
    for kind in ("async", "threaded"):
        for k in ("command", "protocol"):
            run.need(run.counters.get(f"wire_{kind}_{k}_wraps", 0) >= 1, f"wire: the {kind} client's {k} counter never wrapped on the wire ({run.counters.get(f'wire_{kind}_{k}_datagrams', 0)} datagrams)")
    for v in ("AVERS", "CURCH", "SFILE", "STATU", "STATQ", "GETWC", "SETWC", "REQRM"):
        run.need(v in run.sets.get("wire_verbs_async", set()) or v == "STATQ", f"wire: async client never sent {v}")
        run.need(v in run.sets.get("wire_verbs_threaded", set()), f"wire: threaded client never sent {v}")
