"""C07 - dispatch: each datagram consumed once, only by a capable, addressed consumer.

Monitors: the receive-queue tap (put/pop with popping handler, re-evaluated
can_handle, head residence), the client block / events / wire around mis-addressed
packets, and effect counters (acks, RF-error events) for exactly-once handling.
"""
from __future__ import annotations

import asyncio
import struct

from vlib.common import NCPU, Run, Shard, describe_exc, rng, run_shards

from vlib.libconst import poll


def frame(src, dst, content):
    return b"<PACKT><SRCCN>" + src + b"</SRCCN><DESCN>" + dst + b"</DESCN><DATAS>" + content + b"</DATAS></PACKT>"


async def history(sh: Shard, rig, r, regime, nev):
    from geckolib.driver import GeckoStatusBlockProtocolHandler, GeckoVersionProtocolHandler
    from geckolib.spa_events import GeckoSpaEvent
    from vlib.rig import CLIENT_ID, SPA_ID

    w = rig.w
    tr = rig.transport
    q = rig.protocol.queue
    spa = rig.spa
    uniq = [0x2000]

    def word():
        uniq[0] += 1
        return struct.pack(">H", uniq[0])

    expected_acks = 0
    expected_rferr = 0
    waiters = []
    injected = []

    def inject(kind, data, src=None):
        d = w.net.inject(data, src or rig.sim.addr, tr, delay=r.choice([0.0, 0.001, 0.02]))
        injected.append((kind, d.id))
        sh.see("arrival_kinds", kind)
        sh.count("injected")

    other_id = b"IOS99999999-0000-0000-0000-000000000000"
    other_spa = b"SPAaa:bb:cc:dd:ee:ff"
    for step in range(nev):
        k = r.choice(["statp", "rferr", "wcerr", "orphan-reply", "unknown", "garbage", "broken-frame", "misaddressed", "nested", "hello", "waiter", "burst"])
        if k == "statp":
            pos = r.randrange(300, 700)
            inject(k, frame(SPA_ID, CLIENT_ID, b"STATP\x01" + struct.pack(">H", pos) + word()))
            expected_acks += 1
        elif k == "rferr":
            inject(k, frame(SPA_ID, CLIENT_ID, b"RFERR"))
            expected_rferr += 1
        elif k == "wcerr":
            inject(k, frame(SPA_ID, CLIENT_ID, b"WCERR"))
        elif k == "orphan-reply":
            inject(k, frame(SPA_ID, CLIENT_ID, r.choice([b"SVERS\x00\x01\x02\x03\x00\x04\x05\x06", b"CHCUR\x01\x02", b"PACKS", b"WCGET\x01", b"STATV\x05\x06\x02ab", b"APING\x00", b"RMREQ"])))
        elif k == "unknown":
            inject(k, frame(SPA_ID, CLIENT_ID, r.choice([b"XYZZY\x01", b"UPDTS\x01", b"", b"stat", b"\x00\x01"])))
        elif k == "garbage":
            inject(k, r.choice([b"", b"\x00", b"hello world", b"<PACK", b"PACKT>", b"\xff" + bytes(r.randrange(256) for _ in range(r.randrange(1, 60)))]))
        elif k == "broken-frame":
            inject(k, r.choice([b"<PACKT></PACKT>", b"<PACKT>junk</PACKT>", b"<PACKT><SRCCN>" + SPA_ID + b"</SRCCN></PACKT>", b"<PACKT><DATAS>STATP\x00</DATAS></PACKT>", b"<PACKT><SRCCN>" + SPA_ID + b"<DESCN>" + CLIENT_ID + b"</DESCN><DATAS>RFERR</DATAS></PACKT>"]))
        elif k == "hello":
            inject(k, b"<HELLO>" + SPA_ID + b"|Some Spa</HELLO>")
        elif k == "nested":
            inner = frame(SPA_ID, CLIENT_ID, b"STATP\x01" + struct.pack(">H", r.randrange(300, 700)) + word())
            inject(k, frame(SPA_ID, CLIENT_ID, inner))
            expected_acks += 1
        elif k == "misaddressed":
            for t in waiters:
                await t
            await rig.quiesce(settle=0.25)
            variant = r.choice(["ip", "port", "src-id", "dst-id", "both-ids-swapped", "src-id-case", "dst-id-case", "foreign-header-carrying-a-packet-for-us"])
            payload = r.choice([b"STATP\x01" + struct.pack(">H", r.randrange(300, 700)) + word(), b"RFERR", b"WCERR"])
            src_addr = rig.sim.addr
            s_id, d_id = SPA_ID, CLIENT_ID
            if variant == "ip":
                src_addr = ("10.0.0.77", rig.sim.addr[1])
            elif variant == "port":
                src_addr = (rig.sim.addr[0], 10023)
            elif variant == "src-id":
                s_id = other_spa
            elif variant == "dst-id":
                d_id = other_id
            elif variant == "src-id-case":
                # another pair: identifiers that differ from this connection's in letter case only
                s_id = r.choice([SPA_ID.lower(), SPA_ID.swapcase(), SPA_ID[:1].lower() + SPA_ID[1:]])
            elif variant == "dst-id-case":
                d_id = r.choice([CLIENT_ID.upper(), CLIENT_ID.swapcase(), CLIENT_ID.lower()])
                if d_id == CLIENT_ID:
                    d_id = CLIENT_ID.swapcase()
            else:
                s_id, d_id = CLIENT_ID, SPA_ID
            raw_dgram = None
            if variant == "foreign-header-carrying-a-packet-for-us":
                # the outer header names another pair; its payload is a complete packet addressed to
                # THIS pair - with and without stray bytes around the outer tags
                inner_ = frame(SPA_ID, CLIENT_ID, payload)
                s_id = other_spa
                raw_dgram = b"<PACKT>" + r.choice([b"", b"x", b"\n", b" "]) + b"<SRCCN>" + other_spa + b"</SRCCN><DESCN>" + r.choice([CLIENT_ID, other_id]) + b"</DESCN><DATAS>" + inner_ + b"</DATAS>" + r.choice([b"", b"y"]) + b"</PACKT>"
            before_block = spa.struct.status_block

            def plain_state():
                # every plainly valued attribute of the connection object (liveness stamps, counters,
                # flags, versions ...): a packet of another pair leaves all of it alone
                return {k_: v_ for k_, v_ in vars(spa).items() if isinstance(v_, (int, float, bool, str, bytes, type(None), tuple))}

            ev0, d0 = len(rig.events), len(w.net.dgrams)
            st0 = plain_state()
            inject("misaddressed:" + variant, raw_dgram if raw_dgram is not None else frame(s_id, d_id, payload), src=src_addr)
            await rig.quiesce(settle=0.3)
            st1 = plain_state()
            changed_attrs = sorted(k_ for k_ in set(st0) | set(st1) if st0.get(k_) != st1.get(k_))
            if changed_attrs:
                sh.violation(f"C07:misaddressed-effect:{variant}:state", f"a packet with wrong {variant} changed the connection object's state: {changed_attrs}", {"variant": variant, "payload": payload, "attributes": changed_attrs})
            sent = [d for d in w.net.dgrams[d0:] if d.dir == "c2s"]
            evs = [e[0].name for e in rig.events[ev0:]]
            sh.evaluations += 1
            sh.count("misaddressed_checked")
            if spa.struct.status_block != before_block or sent or evs:
                sh.violation(
                    f"C07:misaddressed-effect:{variant}",
                    f"a packet with wrong {variant} had an effect: block changed={spa.struct.status_block != before_block}, datagrams sent={[d.verb for d in sent]}, events={evs}",
                    {"variant": variant, "payload": payload, "sent": [d.data for d in sent], "events": evs},
                )
        elif k == "waiter":
            if len([t for t in waiters if not t.done()]) < 2:
                if r.random() < 0.5:
                    waiters.append(asyncio.ensure_future(rig.protocol.get(lambda: GeckoVersionProtocolHandler.request(rig.protocol.get_and_increment_sequence_counter(False), parms=spa.sendparms))))
                else:
                    waiters.append(asyncio.ensure_future(spa.struct.get(rig.protocol, lambda: GeckoStatusBlockProtocolHandler.request(rig.protocol.get_and_increment_sequence_counter(False), 256, 200, parms=spa.sendparms), 3)))
                sh.count("waiters_started")
        elif k == "burst":
            for _ in range(r.randrange(2, 6)):
                kk = r.choice(["statp", "rferr", "unknown", "garbage"])
                if kk == "statp":
                    inject(kk, frame(SPA_ID, CLIENT_ID, b"STATP\x01" + struct.pack(">H", r.randrange(300, 700)) + word()))
                    expected_acks += 1
                elif kk == "rferr":
                    inject(kk, frame(SPA_ID, CLIENT_ID, b"RFERR"))
                    expected_rferr += 1
                elif kk == "unknown":
                    inject(kk, frame(SPA_ID, CLIENT_ID, b"QQQQQ"))
                else:
                    inject(kk, b"noise")
        await asyncio.sleep(r.choice([0, 0, 0.01, 0.05, 0.1, 0.17, 0.3]))
    for t in waiters:
        await t
    await rig.quiesce(settle=0.4)
    return expected_acks, expected_rferr


def judge_queue(sh: Shard, rig, regime, e0, label, final=True):
    """Exactly-once / capable-consumer / discard-only-after-a-poll / head residence."""
    from vlib.aworld import REGIMES

    q = rig.protocol.queue
    vs = rig.w.loop.vsel
    POLL = poll()
    late_max = REGIMES[regime][0]
    put, pops = {}, {}
    for ev in q.events[e0:]:
        kind, i, t, data, hname, task, ok = ev[:7]
        if kind == "put":
            put[i] = (t, data)
        else:
            pops.setdefault(i, []).append((t, hname, task, ok, data))
    for i, (tp, data) in put.items():
        ps = pops.get(i, [])
        sh.evaluations += 1
        if len(ps) > 1:
            sh.violation("C07:popped-twice", f"datagram popped {len(ps)} times", {"data": data, "pops": ps})
            continue
        if not ps and not final:
            continue
        if not ps:
            sh.violation("C07:left-in-queue", "datagram still queued after quiescence", {"data": data, "put": tp})
            continue
        t, hname, task, ok, _ = ps[0]
        since = q.head_since.get(i, tp)
        res = t - since
        sh.see("popping_handlers", hname)
        w = {"data": data[:80], "handler": hname, "task": task, "put": round(tp, 4), "head_since": round(since, 4), "pop": round(t, 4), "regime": regime, "history": label}
        if hname == "GeckoUnhandledProtocolHandler":
            sh.count("unhandled_discards")
            if res < POLL - 1e-6:
                sh.violation("C07:discard-without-poll", f"datagram discarded as unhandled after only {res:.3f}s at the head of the queue (less than one polling interval: no consumer had the chance to claim it)", w)
            if task != "SPA:Unhandled packet":
                sh.violation("C07:discard-by-wrong-task", f"unhandled discard by task {task}", w)
        else:
            sh.count("claimed_pops")
            if ok is not True:
                sh.violation("C07:incapable-consumer", f"{hname} popped a datagram it does not accept", w)
        bound = 3 * POLL + 4 * late_max + vs.injected_stalls + 0.05
        sh.maximum(f"max_head_residence_{regime}", round(res, 3))
        if regime in ("B", "J") and res > bound:
            sh.violation("C07:head-residence", f"datagram stayed {res:.3f}s at the head of the queue (bound {bound:.3f}s)", w)
    for i in pops:
        if i not in put and i is not None:
            pass
    return len(put)


def shard(sh: Shard, seed, wseed, regime, nhist, nev):
    from geckolib.spa_events import GeckoSpaEvent
    from vlib.aworld import ScenarioHang, Watchdog, World
    from vlib.rig import SpaRig

    for k in range(2 if nhist < 100 else 20):
        two_connections(sh, seed, wseed * 1000 + k)
    for hi in range(nhist):
        r = rng("C07", seed, wseed, hi, regime)
        w = World(r, "B", max_iter=5_000_000, wall_cap=600)
        try:
            rig = SpaRig(w)

            async def main():
                if not await rig.connect():
                    # the handshake itself went through the queue: judge what was seen, and probe
                    # the addressing clause on the half-open connection (its consumers are running)
                    before = len(sh.violations)
                    if rig.protocol is not None:
                        judge_queue(sh, rig, "B", 0, "handshake", final=False)
                        from vlib.rig import CLIENT_ID, SPA_ID

                        for variant, s_id, d_id in (("src-id", b"SPAaa:bb:cc:dd:ee:ff", CLIENT_ID), ("dst-id", SPA_ID, b"IOS99999999-0000-0000-0000-000000000000")):
                            ev0 = len(rig.events)
                            w.net.inject(frame(s_id, d_id, b"RFERR"), rig.sim.addr, rig.transport)
                            await asyncio.sleep(0.6)
                            evs = [e[0].name for e in rig.events[ev0:] if e[0].name == "ERROR_RF_ERROR"]
                            sh.evaluations += 1
                            if evs:
                                sh.violation(f"C07:misaddressed-effect:{variant}", f"a packet with wrong {variant} raised {evs} (probed on a connection whose handshake failed on a fault-free network)", {"variant": variant})
                    if len(sh.violations) == before:
                        sh.inconc("rig could not connect and the monitors saw nothing wrong")
                    return
                judge_queue(sh, rig, "B", 0, "handshake", final=False)
                await rig.quiesce()
                w.set_regime(regime)
                if hi % 3 == 1:
                    # a client whose event handler really suspends (for up to five polling intervals)
                    rig.event_delay = lambda ev: r.choice([None, 0, 0.25, 0.5])
                    sh.count("histories_with_suspending_client_handler")
                switcher = None
                if hi % 4 == 2:
                    # the timing profile is switched now and then during the history (every pump or
                    # blower change does): every configuration-aware sleeper of the process wakes early
                    from geckolib.config import set_config_mode

                    async def switch_loop():
                        on = False
                        while True:
                            await asyncio.sleep(r.choice([0.03, 0.07, 0.13, 0.4]))
                            on = not on
                            try:
                                set_config_mode(on)
                            except (AssertionError, AttributeError):
                                pass

                    switcher = asyncio.ensure_future(switch_loop())
                    sh.count("histories_with_profile_switches")
                e0, d0, ev0 = len(rig.protocol.queue.events), len(w.net.dgrams), len(rig.events)
                flood_acks = 0
                if hi == 2 and regime in ("B", "J"):
                    # a backlog: well over a thousand datagrams arrive within a second (a spa catching
                    # up after an outage); the consumers need minutes - each must still leave the queue
                    # exactly once, by a consumer that accepts it or as unhandled
                    import struct as _st

                    from vlib.rig import CLIENT_ID, SPA_ID

                    nfl = r.choice([1100, 1300])
                    for k in range(nfl):
                        if k % 23 == 7:
                            body = b"QQQQQ" + bytes([k % 256])
                        else:
                            body = b"STATP\x01" + _st.pack(">H", 300 + k % 400) + _st.pack(">H", 0x4000 + k)
                            flood_acks += 1
                        w.net.inject(frame(SPA_ID, CLIENT_ID, body), rig.sim.addr, rig.transport, delay=0.0005 * k)
                    t_lim = w.now + 900
                    await asyncio.sleep(1)
                    while rig.protocol.queue.qsize() > 0 and w.now < t_lim:
                        await asyncio.sleep(2)
                    await rig.quiesce(settle=0.4, limit=60)
                    sh.count("backlog_floods")
                    sh.maximum("largest_backlog_drained", nfl)
                exp_acks, exp_rferr = await history(sh, rig, r, regime, nev)
                exp_acks += flood_acks
                if switcher is not None:
                    switcher.cancel()
                n = judge_queue(sh, rig, regime, e0, f"{seed}:{wseed}:{hi}")
                acks = [d for d in w.net.dgrams[d0:] if d.dir == "c2s" and d.verb == "STATQ"]
                rf = [e for e in rig.events[ev0:] if e[0] == GeckoSpaEvent.ERROR_RF_ERROR]
                # effects are exactly-once per *consumption*: a datagram whose consumer was busy (a
                # suspended client handler) may legitimately be discarded as unhandled instead
                q = rig.protocol.queue
                taken_statp = sum(1 for ev in q.events[e0:] if ev[0] == "pop" and ev[3] and ev[3].startswith(b"STATP") and ev[4] == "GeckoAsyncPartialStatusBlockProtocolHandler")
                taken_rferr = sum(1 for ev in q.events[e0:] if ev[0] == "pop" and ev[3] and ev[3].startswith(b"RFERR") and ev[4] == "GeckoRFErrProtocolHandler")
                if len(acks) != taken_statp or taken_statp > exp_acks:
                    sh.violation("C07:statp-effect-count", f"{exp_acks} addressed partial updates injected, {taken_statp} taken by the partial-update consumer, {len(acks)} acknowledgements sent (handled not exactly once)", {"regime": regime})
                if len(rf) != taken_rferr or taken_rferr > exp_rferr:
                    sh.violation("C07:rferr-effect-count", f"{exp_rferr} addressed RFERR injected, {taken_rferr} taken by the RFERR consumer, {len(rf)} RF-error events raised", {"regime": regime})
                if rig.event_delay is None and (taken_statp != exp_acks or taken_rferr != exp_rferr) and regime in ("B", "J"):
                    sh.violation("C07:addressed-not-consumed", f"with idle consumers {exp_acks - taken_statp} partial update(s) / {exp_rferr - taken_rferr} RFERR addressed to this connection were not taken by their consumer", {"regime": regime})
                sh.count("datagrams_through_queue", n)
                # consumer tasks must all be alive at the end of a history of well-formed traffic
                dead = [t.get_name() for t in rig.taskman._tasks if t.done() and t.get_name().startswith("SPA:") and t.get_name() not in ("SPA:Ping loop", "SPA:Refresh loop")]
                if dead:
                    sh.violation("C07:consumer-died", f"consumer task(s) {dead} ended during a history of framed/unframed traffic", {"dead": dead})
                sh.nontrivial(f"{regime}:{wseed}:{hi}:{n}")

            try:
                w.run(main())
            except ScenarioHang:
                sh.inconc("scenario hang")
            except Watchdog as e:
                sh.inconc(f"watchdog {e}")
            except Exception as e:
                d = describe_exc(e)
                if d["where"] == "repo":
                    sh.violation("C07:raise", f"{d['type']}: {d['msg']}", d)
                else:
                    raise
        finally:
            w.close()
    sh.sample({"regime": regime, "events_per_history": nev, "kinds": "statp|rferr|wcerr|orphan-reply|unknown|garbage|broken-frame|misaddressed(7 variants)|nested|hello|waiter|burst"})


def two_connections(sh: Shard, seed, idx):
    """Two connections to two spas in one process: a datagram delivered to one connection's endpoint
    is never seen, consumed or acknowledged by the other connection's consumers."""
    import struct

    from geckolib.driver import GeckoPartialStatusBlockProtocolHandler as P
    from vlib.aworld import ScenarioHang, Watchdog, World
    from vlib.rig import CLIENT_ID, SPA_ID, SpaRig

    r = rng("C07two", seed, idx)
    w = World(r, "B", max_iter=5_000_000, wall_cap=600)
    try:
        a = SpaRig(w)
        b = SpaRig(w, addr=("10.0.0.3", 10022))

        async def main():
            if not (await a.connect() and await b.connect()):
                sh.inconc("two-connection scenario: a rig could not connect")
                return
            await a.quiesce()
            await b.quiesce()
            w.set_regime(r.choice(["B", "J"]))
            sh.evaluations += 1
            if a.protocol.queue is b.protocol.queue:
                sh.violation("C07:two-connections:shared-queue", "two connections in one process share one receive queue object", {})
                return
            for rounds in range(r.randrange(3, 8)):
                tgt, other = (a, b) if r.random() < 0.5 else (b, a)
                e_t, e_o = len(tgt.protocol.queue.events), len(other.protocol.queue.events)
                d0 = len(w.net.dgrams)
                blk_o = other.spa.struct.status_block
                ev_o = len(other.events)
                n = r.randrange(1, 5)
                for k in range(n):
                    if r.random() < 0.7:
                        pos = r.randrange(300, 700)
                        ch = [(pos, struct.pack(">H", 0x4000 + r.randrange(0x3FFF)))]
                        parms = (tgt.transport.local[0], tgt.transport.local[1], CLIENT_ID, SPA_ID)
                        blk = bytearray(tgt.sim.block)
                        blk[pos : pos + 2] = ch[0][1]
                        tgt.sim.set_block(bytes(blk))
                        tgt.sim.say(P.report_changes(tgt.sim.sock, ch, parms=parms), parms)
                    else:
                        w.net.inject(frame(SPA_ID, CLIENT_ID, b"RFERR"), tgt.sim.addr, tgt.transport)
                    await asyncio.sleep(r.choice([0, 0.03, 0.12]))
                await tgt.quiesce(settle=0.3)
                await other.quiesce(settle=0.3)
                sh.evaluations += 1
                sh.count("two_connection_rounds")
                wit = {"scenario": f"{seed}:{idx}", "target": tgt.sim.addr[0], "other": other.sim.addr[0], "sent": n}
                seen_o = [ev for ev in other.protocol.queue.events[e_o:] if ev[0] == "put"]
                if seen_o:
                    sh.violation("C07:two-connections:cross-delivery", f"{len(seen_o)} datagram(s) sent to the connection with {tgt.sim.addr[0]} entered the receive queue of the connection with {other.sim.addr[0]}", wit)
                if other.spa.struct.status_block != blk_o or len(other.events) != ev_o:
                    sh.violation("C07:two-connections:cross-effect", "traffic for one connection changed the status block / raised events on the other connection", wit)
                acks_o = [d for d in w.net.dgrams[d0:] if d.dir == "c2s" and d.verb == "STATQ" and d.src == other.transport.local]
                if acks_o:
                    sh.violation("C07:two-connections:cross-effect", f"the other connection sent {len(acks_o)} acknowledgement(s) for updates it was not sent", wit)
                if tgt.spa.struct.status_block != tgt.sim.block:
                    sh.violation("C07:two-connections:not-applied", "updates sent to a connection were not applied by it while a second connection exists in the process", wit)
            sh.nontrivial(f"two:{seed}:{idx}")

        try:
            w.run(main())
        except ScenarioHang:
            sh.inconc("scenario hang")
        except Watchdog as e:
            sh.inconc(f"watchdog {e}")
        except Exception as e:
            d = describe_exc(e)
            if d["where"] == "repo":
                sh.violation("C07:raise", f"{d['type']}: {d['msg']}", d)
            else:
                raise
    finally:
        w.close()


def main(tier, seed):
    run = Run("C07", tier, seed, "exploration")
    nh, nev = (12, 50) if tier == "quick" else (300, 90)
    regs = ["B", "J", "H", "T"]
    jobs = [{"seed": seed, "wseed": i, "regime": regs[i % 4], "nhist": nh, "nev": nev} for i in range(NCPU)]
    run.absorb(run_shards("checks.c07", "shard", jobs, timeout=3000))
    hs = run.sets.get("popping_handlers", set())
    for h in ("GeckoUnhandledProtocolHandler", "GeckoPacketProtocolHandler", "GeckoAsyncPartialStatusBlockProtocolHandler", "GeckoRFErrProtocolHandler", "GeckoWatercareErrorHandler", "GeckoVersionProtocolHandler", "GeckoStatusBlockProtocolHandler"):
        run.need(h in hs, f"no pop by {h} observed")
    kinds = run.sets.get("arrival_kinds", set())
    run.need(run.counters.get("backlog_floods", 0) >= 1, "no backlog of more than a thousand datagrams was driven")
    for v in ("ip", "port", "src-id", "dst-id", "both-ids-swapped", "src-id-case", "dst-id-case", "foreign-header-carrying-a-packet-for-us"):
        run.need(f"misaddressed:{v}" in kinds, f"mis-addressed variant {v} not exercised")
    run.need(run.counters.get("unhandled_discards", 0) > 50 and run.counters.get("claimed_pops", 0) > 200, "too few pops observed")
    run.need(run.counters.get("histories_with_profile_switches", 0) > 10, "no history with timing-profile switches")
    run.need(run.counters.get("two_connection_rounds", 0) > 50, "two connections in one process hardly exercised")
    run.need(run.counters.get("histories_with_suspending_client_handler", 0) > 5, "no history with a suspending client handler")
    return run.finish(
        rule="arrival histories on a real connected client mixing addressed partial updates, RFERR, WCERR, replies without a waiter, unknown verbs, unframed garbage, broken frames, nested frames, hello, seven kinds of mis-addressed packets (incl. identifiers differing in letter case only) and bursts, with 0-2 waiters active, under regimes B/J/H and exact timer ties (T); one evaluation = one datagram that went through the receive queue (or one mis-addressed probe); distinct = distinct histories",
        assumptions=["'discarded as unhandled' is read as: popped by the unhandled consumer after the datagram stayed at the head for at least one polling interval", "head-residence bound 3 polls + injected lateness/stalls, judged under regimes B and J only", "malformed payloads of known verbs are not part of the workload (they end the consumer task; noted in DESIGN.md)"],
    )


def replay(path):
    from vlib.common import replay_args

    return main(*replay_args(path))
