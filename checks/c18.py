"""C18 - pack tables well-formed, consistent, and published layouts never change.

Monitor: every table module of the working tree is imported, every accessor object
is constructed (declarations captured at GeckoStructAccessor.__init__), and the
public attributes are checked against (a) structural rules and (b) the layout pinned
at the audited commit.  The space is finite and enumerated completely.
"""
from __future__ import annotations

import gzip
import json
import os
import shutil
import subprocess
import sys

from vlib import layout, tables
from vlib.common import CACHE, HERE, REPO, Run, child_env, describe_exc

PIN = os.path.join(HERE, "pins", "layout-236b7b1.json.gz")
PIN_COMMIT = "236b7b1"
BLOCK = 1024


def structural(run: Run, stem, rec):
    plat, kind, ver = tables.split_stem(stem)
    t = rec["table"]
    if kind is None:
        run.evaluations += 1
        if t.get("name", "").lower() != stem:
            run.violation(f"C18:module:{stem}:name", f"pack module {stem} declares name {t.get('name')!r}", {"module": stem, "table": t})
        return
    run.evaluations += 1
    if t.get("version") != ver:
        run.violation(f"C18:module:{stem}:version", f"module {stem} declares version {t.get('version')}", {"module": stem})
    for lst in ("output_keys", "user_demand_keys", "error_keys"):
        for k in t.get(lst, []):
            run.evaluations += 1
            run.count("advertised_keys")
            if k not in rec["items"]:
                run.violation(f"C18:key:{stem}/{k}:{lst}:dangling", f"{stem}.{lst} advertises {k!r} which names no item", {"module": stem, "list": lst, "key": k})
    if kind == "log":
        b, e = t.get("begin"), t.get("end")
        if not (isinstance(b, int) and isinstance(e, int) and 0 <= b and e > 0 and b + e <= BLOCK):
            run.violation(f"C18:module:{stem}:refresh-window", f"refresh window begin={b} length={e} outside the block", {"module": stem})
    for key, it in rec["items"].items():
        run.evaluations += 1
        ref = tables.RefItem(it["cls"], {"tag": it["pub_tag"], "pos": it["pos"], "type": it["type"], "bitpos": it["bitpos"], "items": it["items"], "size": it["size"], "maxitems": it["maxitems"], "rw": it["rw"]})
        run.see("shapes", ref.shape())
        run.see("classes", it["cls"])
        run.nontrivial(f"{stem}/{key}")
        w = {"module": stem, "item": key, "record": {k: v for k, v in it.items() if k != "items" and k != "pub_items"}, "labels": None if it["items"] is None else len(it["items"])}
        if key != it["pub_tag"]:
            run.violation(f"C18:item:{stem}/{key}:tag", f"dictionary key {key!r} != item tag {it['pub_tag']!r}", w)
        width = it["pub_length"]
        if not (isinstance(it["pub_pos"], int) and it["pub_pos"] >= 0 and it["pub_pos"] + width <= BLOCK):
            run.violation(f"C18:item:{stem}/{key}:oob", f"item bytes [{it['pub_pos']},{it['pub_pos']}+{width}) lie outside the {BLOCK}-byte block", w)
        if width not in (1, 2) or it["pub_format"] != {1: ">B", 2: ">H"}.get(width):
            run.violation(f"C18:item:{stem}/{key}:width", f"width {width} / format {it['pub_format']}", w)
        if it["pub_bitpos"] is not None:
            mask = it["pub_bitmask"]
            if mask is None or mask <= 0 or (mask << it["pub_bitpos"]) >= (1 << (8 * width)):
                run.violation(f"C18:item:{stem}/{key}:bitfield", f"bit field mask {mask} at bit {it['pub_bitpos']} not inside its {width} byte(s)", w)
            fieldmax = mask or 0
        else:
            fieldmax = (1 << (8 * width)) - 1
        if it["type"] == "Enum":
            labels = it["pub_items"] or []
            if len(labels) == 0 or len(labels) - 1 > fieldmax:
                run.violation(f"C18:item:{stem}/{key}:labels-unrepresentable", f"{len(labels)} labels do not fit a field holding 0..{fieldmax}", w)
            run.count("enum_items")


def naming(run: Run, lay):
    """FILES reply built from the declared names must decode back to the module pair."""
    from geckolib.driver import GeckoConfigFileProtocolHandler

    for (plat, c, l) in tables.combos():
        run.evaluations += 1
        run.count("files_roundtrips")
        name = lay[plat]["table"].get("name")
        names = [name] + (["MrSt"] if name == "MrSteam" else [])  # a Mr.Steam unit reports the short form
        for name in names:
            naming_one(run, GeckoConfigFileProtocolHandler, plat, name, c, l)


def naming_one(run, GeckoConfigFileProtocolHandler, plat, name, c, l):
    if True:
        try:
            msg = GeckoConfigFileProtocolHandler.response(name, c, l, parms=(1, 2, b"a", b"b"))
            h = GeckoConfigFileProtocolHandler()
            content = msg.send_bytes
            inner = content[content.index(b"<DATAS>") + 7 : content.index(b"</DATAS>")]
            h.handle(inner, None)
            got = (h.plateform_key.lower(), h.config_version, h.log_version)
        except Exception as e:  # the statement implies this is total
            run.violation(f"C18:files:{plat}:raise", f"FILES naming for {name} C{c} S{l} raised {type(e).__name__}", {"exc": describe_exc(e)})
            return
        if got != (plat, c, l):
            run.violation(f"C18:files:{plat}:mismatch", f"FILES naming of ({name},{c},{l}) decodes to {got}, module names need {(plat, c, l)}", {"got": got})


def shard_connect(sh, combos, seed):
    """The anchored lookup itself: a real GeckoAsyncSpa connects (real handshake, virtual network) to
    the simulator reporting each (platform, config, log) naming, one connection after the other in
    ONE process, and must end up with exactly the tables of the modules of that name."""
    import asyncio

    from vlib import tables as T
    from vlib.aworld import ScenarioHang, SimHost, Watchdog, World
    from vlib.common import rng
    from vlib.rig import SpaRig

    class Snap:
        def __init__(self, name, c, l):
            self.packtype, self.config_version, self.log_version = name, c, l
            self.bytes = bytes(1024)
            self.intouch_EN, self.intouch_CO = (88, 15, 0), (89, 11, 0)
            self.name, self.timestamp = "synthetic", "2020-01-01 00:00:00"

    for plat, name, c, l in combos:
        r = rng("C18connect", seed, plat, c, l)
        w = World(r, "B", max_iter=3_000_000, wall_cap=300)
        try:
            rig = SpaRig.__new__(SpaRig)
            rig.w, rig.tap, rig.events, rig.spa, rig.taskman = w, None, [], None, None
            try:
                rig.sim = SimHost(w.net, snapshot=Snap(name, c, l))
            except Exception as e:
                sh.inconc(f"simulator could not be set up for {plat} {c}/{l}: {e!r}")
                continue

            async def main():
                return await rig.connect()

            sh.evaluations += 1
            ok, err = False, None
            try:
                ok = w.run(main())
            except (ScenarioHang, Watchdog) as e:
                sh.inconc(f"{type(e).__name__} while connecting to {plat} {c}/{l}")
                continue
            except Exception as e:
                err = describe_exc(e)
            spa = rig.spa
            wit = {"platform": plat, "reported": [name, c, l], "events": [e[0].name for e in rig.events][-5:], "exc": err}
            looked_up = spa is not None and all(getattr(spa, a, None) is not None for a in ("pack_class", "config_class", "log_class"))
            if not looked_up:
                # the lookup itself did not deliver the three table objects
                sh.violation(f"C18:connect:{plat}:lookup-failed", f"a spa reporting {name} C{c} S{l} (modules {plat}, {plat}-cfg-{c}, {plat}-log-{l} are shipped): the connection did not get its tables ({err['type'] + ': ' + err['msg'] if err else wit['events']})", wit)
                continue
            if not ok:
                # tables found, a later step of the connection failed (e.g. platforms whose tables lack
                # items the client assumes - C11's recorded findings): counted, the lookup is still judged
                sh.count("connections_not_completed_after_the_lookup")
                sh.see("platforms_not_completing", plat)
            mods = (type(spa.pack_class).__module__, type(spa.config_class).__module__, type(spa.log_class).__module__)
            want = (f"geckolib.driver.packs.{plat}", f"geckolib.driver.packs.{plat}-cfg-{c}", f"geckolib.driver.packs.{plat}-log-{l}")
            if mods != want:
                sh.violation(f"C18:connect:{plat}:wrong-modules", f"a spa reporting {name} C{c} S{l} was given the tables of {mods}, the naming needs {want}", wit)
                continue
            fresh_c = set(T.import_stem(f"{plat}-cfg-{c}").GeckoConfigStruct(spa.struct).accessors)
            fresh_l = set(T.import_stem(f"{plat}-log-{l}").GeckoLogStruct(spa.struct).accessors)
            if set(spa.struct.accessors) != fresh_c | fresh_l or (spa.config_version, spa.log_version) != (c, l):
                sh.violation(f"C18:connect:{plat}:wrong-items", f"connected to {name} C{c} S{l}: the structure's items are not those of {plat}-cfg-{c} + {plat}-log-{l}", wit)
            else:
                sh.count("connections_with_the_named_tables")
                sh.see("platforms_connected", plat)
        finally:
            w.close()


def shard_connect_threaded(sh, combos, seed):
    """The same lookup made by the blocking client: the real GeckoSpa (baton-scheduled threads) goes
    through its handshake with the simulator reporting each naming."""
    from vlib import tables as T
    from vlib.common import rng
    from vlib.trig import TRig
    from vlib.vthreads import Deadlock, Stuck

    class Snap:
        def __init__(self, name, c, l):
            self.packtype, self.config_version, self.log_version = name, c, l
            self.bytes = bytes(1024)
            self.intouch_EN, self.intouch_CO = (88, 15, 0), (89, 11, 0)
            self.name, self.timestamp = "synthetic", "2020-01-01 00:00:00"

    for plat, name, c, l in combos:
        r = rng("C18connectT", seed, plat, c, l)
        try:
            rig = TRig(r, snapshot_obj=Snap(name, c, l))
        except Exception as e:
            sh.inconc(f"threaded simulator could not be set up for {plat} {c}/{l}: {e!r}")
            continue
        try:
            spa = rig.make_spa()
            import contextlib
            import io

            sh.evaluations += 1
            try:
                with contextlib.redirect_stdout(io.StringIO()):
                    spa.start_connect()
                    rig.s.run_until(lambda: spa._is_connected or getattr(spa, "is_in_error", False) or getattr(spa, "new_log_class", None) is not None, 40)
                    rig.s.sleep(0.5)
            except (Deadlock, Stuck) as e:
                sh.inconc(f"{type(e).__name__} while the blocking client connected to {plat} {c}/{l}")
                continue
            wit = {"client": "blocking", "platform": plat, "reported": [name, c, l], "thread_errors": [repr(e) for _, e in rig.s.errors][-2:]}
            got = [getattr(spa, a, None) for a in ("new_pack_class", "new_config_class", "new_log_class")]
            if any(g is None for g in got):
                sh.violation(f"C18:connect:{plat}:lookup-failed", f"blocking client: a spa reporting {name} C{c} S{l} (modules {plat}, {plat}-cfg-{c}, {plat}-log-{l} are shipped) did not get its tables ({wit['thread_errors']})", wit)
                continue
            mods = tuple(type(g).__module__ for g in got)
            want = (f"geckolib.driver.packs.{plat}", f"geckolib.driver.packs.{plat}-cfg-{c}", f"geckolib.driver.packs.{plat}-log-{l}")
            if mods != want or (spa.config_version, spa.log_version) != (c, l):
                sh.violation(f"C18:connect:{plat}:wrong-modules", f"blocking client: a spa reporting {name} C{c} S{l} was given the tables of {mods}, the naming needs {want}", wit)
                continue
            sh.count("blocking_connections_with_the_named_tables")
            sh.see("platforms_connected_blocking", plat)
        finally:
            rig.close()


def shard_reused_structure(sh, combos, seed):
    """One long-lived structure object of each class is given table pair after table pair (what the
    simulator does when another snapshot is loaded, and a client object that connects again): after
    each build it must publish exactly the items of that pair, at that pair's layout."""
    from geckolib.driver import GeckoAsyncStructure, GeckoStructure
    from vlib import tables as T

    async def _a(*a):
        pass

    T.install_decl_capture()
    structs = {"GeckoStructure": GeckoStructure(lambda *a: None), "GeckoAsyncStructure": GeckoAsyncStructure(lambda *a: None, _a)}
    for plat, c, l in combos:
        for cname, st in structs.items():
            sh.evaluations += 1
            try:
                T.load_struct(st, plat, c, l)
                fresh = type(st)(lambda *a: None) if cname == "GeckoStructure" else type(st)(lambda *a: None, _a)
                T.load_struct(fresh, plat, c, l)
            except Exception as e:
                sh.count("pairs_not_loadable_on_a_structure")
                continue
            wit = {"class": cname, "tables": [plat, c, l]}
            if set(st.accessors) != set(fresh.accessors):
                extra = sorted(set(st.accessors) - set(fresh.accessors))[:6]
                missing = sorted(set(fresh.accessors) - set(st.accessors))[:6]
                sh.violation(f"C18:reused-structure:{cname}:items", f"a {cname} that carried other tables before publishes other items than a fresh one for {plat} C{c} S{l} (extra {extra}, missing {missing})", wit)
                continue
            T.install_decl_capture()
            diff = [t for t in fresh.accessors if (T.ref_of(st.accessors[t]).shape(), T.ref_of(st.accessors[t]).pos, T.ref_of(st.accessors[t]).labels, T.ref_of(st.accessors[t]).rw) != (T.ref_of(fresh.accessors[t]).shape(), T.ref_of(fresh.accessors[t]).pos, T.ref_of(fresh.accessors[t]).labels, T.ref_of(fresh.accessors[t]).rw)]
            if diff or (list(st.all_outputs), list(st.user_demands)) != (list(fresh.all_outputs), list(fresh.user_demands)):
                sh.violation(f"C18:reused-structure:{cname}:layout", f"a reused {cname} publishes a different layout for {plat} C{c} S{l}: {diff[:6]}", wit)
                continue
            sh.count("builds_on_a_reused_structure")


def shard_layout_after_use(sh, combos, seed):
    """The published layout does not change by being USED: on every (platform, config, log) given, both
    facades are built on a block full of values beyond the labels, every item is read (value, repr)
    and the facade's members are evaluated; afterwards every live accessor object publishes what a
    freshly built one does (positions, widths, bit fields, labels, writability)."""
    from checks.c11 import make_async, make_threaded, read_members
    from geckolib.driver import GeckoAsyncStructure
    from vlib import layout as L
    from vlib import tables as T
    from vlib.common import rng

    T.install_decl_capture()
    for plat, c, l in combos:
        r = rng("C18use", seed, plat, c, l)
        fresh = GeckoAsyncStructure(None, None)
        try:
            T.load_struct(fresh, plat, c, l)
        except Exception:
            continue
        want = {t: L.item_record(a) for t, a in fresh.accessors.items()}
        for kind, maker in (("async", make_async), ("threaded", make_threaded)):
            for block in (bytes([0xFF]) * 1024, bytes(r.randrange(256) for _ in range(1024))):
                sh.evaluations += 1
                try:
                    spa, build = maker(plat, c, l, block)
                    try:
                        facade = build()
                    except Exception:
                        facade = None  # C11's subject; the structure was still used
                    for a in list(spa.struct.accessors.values()):
                        try:
                            a.value
                            repr(a)
                        except Exception:
                            pass
                    if facade is not None:
                        for obj in [facade] + list(getattr(facade, "all_automation_devices", []) or []):
                            for name, thunk in read_members(obj):
                                try:
                                    thunk()
                                except Exception:
                                    pass
                    # a patch that moves every item (what a partial update does)
                    try:
                        spa.struct.replace_status_block_segment(0, bytes(1024))
                    except Exception:
                        pass
                except Exception:
                    sh.count("layout_after_use_setup_failed")
                    continue
                got = {t: L.item_record(a) for t, a in spa.struct.accessors.items()}
                wit = {"facade": kind, "tables": [plat, c, l]}
                if set(got) != set(want):
                    sh.violation(f"C18:after-use:{plat}:items", f"after building and reading a {kind} facade on {plat} C{c} S{l} the structure publishes other items than a fresh one", wit)
                    continue
                for t in want:
                    diff = [f for f in want[t] if got[t].get(f) != want[t][f]]
                    if diff:
                        stem = f"{plat}-cfg-{c}" if t in T.import_stem(f"{plat}-cfg-{c}").GeckoConfigStruct(GeckoAsyncStructure(None, None)).accessors else f"{plat}-log-{l}"
                        sh.violation(f"C18:after-use:{stem}/{t}:{'+'.join(diff)}", f"published item {stem}/{t}: {diff} changed by use ({kind} facade built and read on a block of unlabelled values): {[(f, want[t][f], got[t].get(f)) for f in diff][:2]!r:.300}", dict(wit, item=t, fields=diff))
                        break
                else:
                    sh.count("layouts_unchanged_after_use")


def compare_pin(run: Run, lay, pin):
    fields = ("cls", "pos", "type", "bitpos", "items", "size", "maxitems", "rw", "pub_pos", "pub_length", "pub_format", "pub_bitpos", "pub_bitmask", "pub_items", "pub_rw", "pub_tag")
    for stem, prec in pin.items():
        run.count("pinned_modules")
        if stem not in lay:
            run.violation(f"C18:pin:{stem}:missing", f"published module {stem} no longer loads/exists", {"module": stem})
            continue
        rec = lay[stem]
        for k, v in prec["table"].items():
            run.evaluations += 1
            if rec["table"].get(k) != v:
                run.violation(f"C18:pin:{stem}:table:{k}", f"published {stem}.{k} changed from {v!r} to {rec['table'].get(k)!r}", {"module": stem, "attr": k, "pinned": v, "now": rec["table"].get(k)})
        for key, pit in prec["items"].items():
            run.evaluations += 1
            run.count("pinned_items_compared")
            it = rec["items"].get(key)
            if it is None:
                run.violation(f"C18:pin:{stem}/{key}:removed", f"published item {stem}/{key} removed", {"module": stem, "item": key})
                continue
            for f in fields:
                if it.get(f) != pit.get(f):
                    run.violation(f"C18:pin:{stem}/{key}:{f}", f"published item {stem}/{key}: {f} changed from {pit.get(f)!r} to {it.get(f)!r}", {"module": stem, "item": key, "field": f, "pinned": pit.get(f), "now": it.get(f)})
        for key in rec["items"]:
            if key not in prec["items"]:
                run.violation(f"C18:pin:{stem}/{key}:added", f"item {key} added to published module {stem}", {"module": stem, "item": key})
    run.extra["new_modules_not_in_pin"] = sorted(set(lay) - set(pin))


def rederive_pin(run: Run, pin):
    """Thorough tier: rebuild the pin from `git show` of the audited commit and compare."""
    scratch = os.path.join(CACHE, "pin-src")
    shutil.rmtree(scratch, ignore_errors=True)
    os.makedirs(scratch)
    try:
        ar = subprocess.run(["git", "-C", REPO, "archive", PIN_COMMIT, "src/geckolib"], stdout=subprocess.PIPE, stderr=subprocess.PIPE, timeout=120)
        if ar.returncode != 0:
            run.extra["pin_rederived"] = "skipped: commit %s not available (%s)" % (PIN_COMMIT, ar.stderr.decode()[:100])
            return
        subprocess.run(["tar", "-x", "-C", scratch], input=ar.stdout, check=True, timeout=120)
        out = os.path.join(scratch, "pin.json.gz")
        env = child_env()
        env["PYTHONPATH"] = os.pathsep.join([os.path.join(scratch, "src"), HERE])
        env["PYTHONPYCACHEPREFIX"] = os.path.join(scratch, "pyc")
        p = subprocess.run([sys.executable, os.path.join(HERE, "tools", "make_pin.py"), out], env=env, stdout=subprocess.PIPE, stderr=subprocess.PIPE, timeout=600)
        if p.returncode != 0:
            run.inconc("could not re-derive pin: " + p.stderr.decode()[-300:])
            return
        with gzip.open(out, "rt") as f:
            again = json.load(f)
        run.extra["pin_rederived"] = "identical" if again == pin else "DIFFERENT"
        if again != pin:
            run.inconc("committed pin differs from the layout re-derived from commit " + PIN_COMMIT)
    finally:
        shutil.rmtree(scratch, ignore_errors=True)


def main(tier, seed):
    run = Run("C18", tier, seed, "exploration")
    try:
        lay = layout.full_layout()
    except Exception as e:
        d = describe_exc(e)
        if d["where"] == "repo":
            run.evaluations = 1
            run.violation("C18:load:raise", f"a table module does not load: {d['type']}: {d['msg']}", d)
            lay = None
        else:
            raise
    if lay is not None:
        # round-trip through JSON so that pin and live layout have identical types
        lay = json.loads(json.dumps(lay))
        with gzip.open(PIN, "rt") as f:
            pin = json.load(f)
        for stem, rec in lay.items():
            structural(run, stem, rec)
        naming(run, lay)
        compare_pin(run, lay, pin)
        # the anchored lookup through a real connection; platforms interleaved so that consecutive
        # connections of one process differ in platform but often share version numbers
        from vlib.common import NCPU, rng, run_shards

        allc = sorted(tables.combos(), key=lambda x: (x[1], x[2], x[0]))
        if tier == "quick":
            rr = rng("C18pick", seed)
            allc = sorted(rr.sample(allc, 160), key=lambda x: (x[1], x[2], x[0]))
        args = [(p_, lay[p_]["table"].get("name"), c_, l_) for p_, c_, l_ in allc]
        res = run_shards("checks.c18", "shard_connect", [{"combos": args[i::NCPU], "seed": seed} for i in range(NCPU) if args[i::NCPU]], timeout=3000)
        run.absorb(res)
        # the blocking client's lookup: every platform at least once (thorough: 300 combinations)
        byplat = {}
        for a in args:
            byplat.setdefault(a[0], a)
        every = sorted(tables.combos(), key=lambda x: (x[1], x[2], x[0]))
        for p_, c_, l_ in every:
            byplat.setdefault(p_, (p_, lay[p_]["table"].get("name"), c_, l_))
        targs = sorted(byplat.values()) + (args[:24] if tier == "quick" else [(p_, lay[p_]["table"].get("name"), c_, l_) for p_, c_, l_ in every[::3]])
        run.absorb(run_shards("checks.c18", "shard_connect_threaded", [{"combos": targs[i::NCPU], "seed": seed} for i in range(NCPU) if targs[i::NCPU]], timeout=3000))
        rr2 = rng("C18reuse", seed)
        order = list(every)
        rr2.shuffle(order)
        if tier == "quick":
            order = order[:320]
        run.absorb(run_shards("checks.c18", "shard_reused_structure", [{"combos": order[i::NCPU], "seed": seed} for i in range(NCPU) if order[i::NCPU]], timeout=3000))
        # every (platform, log) at least once, and every (platform, config) at least once (thorough: all)
        seen_, use = set(), []
        for p_, c_, l_ in every:
            if (p_, "l", l_) not in seen_ or (p_, "c", c_) not in seen_ or tier == "thorough":
                use.append((p_, c_, l_))
                seen_.add((p_, "l", l_))
                seen_.add((p_, "c", c_))
        run.absorb(run_shards("checks.c18", "shard_layout_after_use", [{"combos": use[i::NCPU], "seed": seed} for i in range(NCPU) if use[i::NCPU]], timeout=3000))
        if tier == "thorough":
            rederive_pin(run, pin)
        run.count("modules", len(lay))
        run.count("items", sum(len(m["items"]) for m in lay.values()))
        ex = lay["inyt-log-1"]["items"] if "inyt-log-1" in lay else {}
        for k in list(ex)[:3]:
            run.sample({"module": "inyt-log-1", "item": k, "record": {a: b for a, b in ex[k].items() if not a.startswith("pub_")}})
        run.need(run.counters.get("items", 0) >= 20000, "fewer than 20000 items enumerated")
        run.need(run.counters.get("pinned_items_compared", 0) >= 20000, "fewer than 20000 pinned items compared")
        run.need(run.counters.get("connections_with_the_named_tables", 0) >= 100, "too few real connections through the module lookup")
        run.need(len(run.sets.get("platforms_connected_blocking", ())) >= len(byplat) - 1, "the blocking client's lookup was not exercised for most platforms")
        run.need(run.counters.get("layouts_unchanged_after_use", 0) >= 300, "too few layouts compared after use")
        run.need(run.counters.get("builds_on_a_reused_structure", 0) >= 300, "too few builds on long-lived structure objects")
    return run.finish(
        rule="every item of every table module in the working tree is enumerated (finite space, complete); a case is one (module,item) pair checked against the structural rules and, for pinned modules, field-by-field against the pinned layout; distinct = distinct (module,item) pairs",
        assumptions=["pins/layout-236b7b1.json.gz is the layout of the audited commit (re-derived from git in the thorough tier)", "declarations captured by wrapping GeckoStructAccessor.__init__ from the harness"],
        exhaustive=True,
    )


def replay(path):
    from vlib.common import replay_args

    return main(*replay_args(path))
