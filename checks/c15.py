"""C15 - discovery lists each spa once, honours the filter, and terminates on time.

Monitor: the real GeckoAsyncLocator runs in the virtual world against 0-6 scripted
responders; the wire log gives the arrival instant of every reply at the locator's
endpoint; on return the monitor compares locator.spas, the return instant, the
endpoint state and the remaining LOC tasks with what the replies allow.
"""
from __future__ import annotations

import asyncio

from vlib.common import NCPU, Run, Shard, describe_exc, rng, run_shards

from vlib.libconst import poll


class Responder:
    def __init__(self, net, addr, ident, name, script, r):
        self.net, self.addr, self.ident, self.name, self.script, self.r = net, addr, ident, name, script, r
        self.heard = 0
        # the reply's source port need not be the port the hello was sent to (NAT, port forwarding)
        self.reply_addr = (addr[0], r.randrange(30000, 60000)) if r.random() < 0.25 else addr
        net.add_peer(addr, self)

    def receive(self, data, src):
        if data != b"<HELLO>1</HELLO>":
            return
        self.heard += 1
        s = self.script
        if self.heard < s["answer_from"] or self.r.random() < s["loss"]:
            return
        reply = b"<HELLO>" + self.ident + b"|" + self.name.encode("latin1") + b"</HELLO>"
        for _ in range(s["copies"]):
            self.net.peer_send(self.reply_addr, reply, src)


def gen_name(r):
    alphabet = [chr(c) for c in range(32, 127)] + [chr(c) for c in range(128, 256)]  # every latin-1 byte above ASCII, C1 range included
    style = r.random()
    if style < 0.4:
        return "".join(r.choice("abcdefghijklmnopqrstuvwxyz SPA") for _ in range(r.randrange(1, 16)))
    if style < 0.7:
        return "".join(r.choice(alphabet) for _ in range(r.randrange(1, 20))).replace("|", "/")
    return "".join(r.choice(alphabet) for _ in range(r.randrange(0, 8))) + "|" + "".join(r.choice(alphabet) for _ in range(r.randrange(0, 8)))


def scenario(sh: Shard, seed, idx, regime):
    from geckolib.async_locator import GeckoAsyncLocator
    from geckolib.async_tasks import AsyncTasks
    from geckolib.config import GeckoConfig
    from geckolib.spa_events import GeckoSpaEvent
    from vlib.aworld import REGIMES, ScenarioHang, Watchdog, World

    r = rng("C15", seed, idx)
    w = World(r, regime, max_iter=2_000_000, wall_cap=300)
    try:
        nresp = r.choice([0, 1, 1, 2, 3, 6])
        resp = []
        for i in range(nresp):
            ident = b"SPA" + ":".join("%02x" % r.randrange(256) for _ in range(6)).encode()
            if resp and r.random() < 0.15:
                ident = resp[0].ident  # two boxes answering with the same identifier
            elif resp and r.random() < 0.15 and resp[0].ident.swapcase() != resp[0].ident:
                ident = b"SPA" + resp[0].ident[3:].swapcase()  # differs from the first one by letter case only
                sh.count("identifiers_differing_by_case_only")
            elif resp and r.random() < 0.18:
                # another near miss of the first one: the same text without its separators (what a
                # front-end may store as a unique id), or with other separators
                ident = r.choice([resp[0].ident.replace(b":", b""), resp[0].ident.replace(b":", b"-"), resp[0].ident.replace(b":", b"", 1), resp[0].ident + b" "])
                sh.count("identifiers_differing_by_separators_only")
            script = {"answer_from": r.choice([1, 1, 2, 4, 9, 12]), "loss": r.choice([0, 0, 0.5]), "copies": r.choice([1, 1, 2, 5]), "latency": r.choice([(0.0005, 0.003), (0.05, 0.4), (0.5, 3.0), (8.0, 14.0)])}
            resp.append(Responder(w.net, (f"10.0.0.{10 + i}", 10022), ident, gen_name(r), script, r))
        by_addr = {x.addr: x for x in resp}
        by_addr.update({x.reply_addr: x for x in resp})

        def fault(d):
            if d.dir == "s2c":
                return [r.uniform(*by_addr[d.src].script["latency"])]
            return None

        w.net.fault = fault
        mode = r.choice(["none", "none", "id", "id-absent", "addr", "addr+id"])
        kw = {}
        target = r.choice(resp) if resp else None
        if mode in ("id", "addr+id") and target:
            kw["spa_identifier"] = target.ident.decode("latin1")
        if mode == "id-absent":
            kw["spa_identifier"] = "SPAno:su:ch:sp:a0:00"
        if mode in ("addr", "addr+id") and target:
            kw["spa_address"] = target.addr[0]
            if r.random() < 0.3:
                # the address as a host name (anything sendto() accepts): replies still come from the IP
                w.net.aliases = {"spa-%d.local" % idx: target.addr[0]}
                kw["spa_address"] = "spa-%d.local" % idx
                sh.count("address_filters_given_as_a_host_name")
        if mode == "addr" and not target:
            kw["spa_address"] = "10.0.0.99"
        events = []
        out = {}
        susp = [0.0]
        slow_handler = r.random() < 0.4

        async def handler(event, **k):
            events.append((event, w.now, k))
            if r.random() < 0.3:
                # the application's handler really suspends (I/O): up to seconds, also across the end of discovery
                d = r.choice([0, 0.05, 0.05, 0.3, 0.6, 1.5]) if slow_handler else r.choice([0, 0.05])
                susp[0] += d
                await asyncio.sleep(d)

        cancel_after = r.choice([None, None, None, 0.0, 0.05, 0.3, 1.2, 3.9, 4.05]) if idx % 4 == 3 else None
        cancel_at_step = None
        if idx % 8 == 7:
            cancel_after, cancel_at_step = 0.0, r.randrange(0, 160)
        well_behaved = all(x.script["answer_from"] == 1 and x.script["loss"] == 0 and x.script["latency"][1] <= 0.4 for x in resp)
        rerun = bool(resp) and well_behaved and idx % 4 != 3

        async def main():
            tm = AsyncTasks()
            await tm.__aenter__()
            loc = GeckoAsyncLocator(tm, handler, **kw)
            # the task farm tidies its list every TASK_TIDY_FREQUENCY seconds: let some runs straddle a tick
            pre = r.choice([0, 0, GeckoConfig.TASK_TIDY_FREQUENCY_IN_SECONDS - r.choice([0.5, 3.0, 8.0])])
            if pre:
                await asyncio.sleep(pre)
                sh.count("runs_straddling_a_tidy_tick")
            t0 = w.now
            out["t0"] = t0
            try:
                if cancel_after is None:
                    await loc.discover()
                else:
                    # the caller gives up (manager exit, wait_for): discovery is cancelled part way
                    task = asyncio.ensure_future(loc.discover())
                    task.add_done_callback(lambda t: out.setdefault("t_done", w.now))
                    if cancel_at_step is not None:
                        # cancelled right after the k-th callback scheduled since discovery started
                        gate = w.loop.create_future()
                        w.loop.step_target = w.loop.steps_scheduled + cancel_at_step
                        w.loop.step_hook = lambda: (not gate.done()) and gate.set_result(True)
                        await asyncio.wait({gate, task}, return_when=asyncio.FIRST_COMPLETED)
                        w.loop.step_hook = None
                        sh.count("discoveries_cancelled_at_a_scheduler_step")
                    else:
                        await asyncio.sleep(cancel_after)
                    out["cancelled"] = not task.done()
                    task.cancel()
                    try:
                        await task
                    except asyncio.CancelledError:
                        pass
            except Exception as e:
                out["exc"] = e
            out["t1"] = out.get("t_done", w.now) if not out.get("cancelled") else w.now
            out["spas"] = list(loc.spas or [])
            out["transports"] = list(w.loop.transports)
            if rerun and cancel_after is None and "exc" not in out:
                # a second locator object in the same process, against the same (well-behaved) spas:
                # what one discovery run saw must not leak into the next
                await asyncio.sleep(0.5)
                n_ev = len(events)
                loc2 = GeckoAsyncLocator(tm, handler, **kw)
                try:
                    await loc2.discover()
                    out["spas2"] = list(loc2.spas or [])
                except Exception as e:
                    out["exc2"] = e
                del events[n_ev:]
            await asyncio.sleep(0)
            await asyncio.sleep(0)
            out["loc_tasks"] = [t.get_name() for t in asyncio.all_tasks() if t.get_name().startswith("LOC:") and not t.done()]
            await tm.gather()

        try:
            w.run(main())
        except ScenarioHang:
            sh.inconc("scenario hang")
            return
        except Watchdog as e:
            sh.inconc(f"watchdog {e}")
            return
        sh.evaluations += 1
        T_INIT, T_MAX = GeckoConfig.DISCOVERY_INITIAL_TIMEOUT_IN_SECONDS, GeckoConfig.DISCOVERY_TIMEOUT_IN_SECONDS
        late = REGIMES[regime][0]
        POLL = poll()
        # time the hello consumer spent suspended inside the client's handler delays everything behind it
        slack = 2 * POLL + 3 * late + w.loop.vsel.injected_stalls + 0.02 + susp[0]
        if susp[0] >= 0.3:
            sh.count("runs_with_slow_handlers")
        t0, t1 = out["t0"], out["t1"]
        dur = t1 - t0
        wit = {"mode": mode, "filter": kw, "responders": [(x.addr[0], x.ident.decode(), x.name, x.script) for x in resp], "duration": round(dur, 3), "listed": [(s.identifier.decode("latin1"), s.name, s.ipaddress) for s in out["spas"]], "regime": regime, "scenario": f"{seed}:{idx}"}
        if "exc" in out:
            d = describe_exc(out["exc"])
            sh.violation("C15:raise", f"discover() raised {d['type']}: {d['msg']}", dict(wit, exc=d))
            return
        if out.get("cancelled"):
            # only the clean-up clauses apply to a cancelled run
            opened = out["transports"]
            sh.count("cancelled_discoveries")
            if not all(t.closed for t in opened):
                sh.violation("C15:endpoint-open", f"discovery endpoint not closed after discover() was cancelled at +{cancel_after}s", wit)
            if out["loc_tasks"]:
                sh.violation("C15:helper-tasks-alive", f"helper tasks still alive after discover() was cancelled: {out['loc_tasks']}", wit)
            sh.nontrivial(f"{seed}:{idx}:cancelled")
            return
        # arrivals at the locator endpoint: (arrival time, responder)
        arrivals = []
        for d in w.net.dgrams:
            if d.dir == "s2c" and d.fate:
                for dl in d.fate:
                    arrivals.append((d.t + dl, by_addr[d.src]))
        want_id = kw.get("spa_identifier")
        passes = lambda x: want_id is None or x.ident.decode("latin1") == want_id  # noqa
        # The hello consumer takes ONE datagram per polling interval, so a reply may wait
        # behind earlier replies.  U = latest instant by which the k-th arrival is processed
        # (reference queue model: one per poll, plus timer lateness), A = its arrival.
        arrivals.sort(key=lambda a: a[0])
        step = POLL + late + 0.002
        U, prev = [], None
        for t, x in arrivals:
            u = max(t, prev if prev is not None else t) + step
            U.append(u)
            prev = u
        first, first_u = {}, {}
        for (t, x), u in zip(arrivals, U):
            if passes(x) and x.ident not in first:
                first[x.ident] = (t, x)
                first_u[x.ident] = u
        stall = w.loop.vsel.injected_stalls
        must = {i for i in first if first_u[i] + step + stall + susp[0] <= t1}
        may = {i for i, (t, x) in first.items() if t <= t1 + 1e-6}
        backlog = max((u - t for (t, x), u in zip(arrivals, U)), default=0)
        sh.maximum("max_reply_backlog_seconds", round(backlog, 2))
        listed = [s.identifier for s in out["spas"]]
        if len(set(listed)) != len(listed):
            sh.violation("C15:listed-twice", f"a spa is listed more than once: {listed}", wit)
        if not (must <= set(listed) <= may):
            sh.violation("C15:wrong-set", f"listed {sorted(set(listed))}, replies processed in time require {sorted(must)} and allow {sorted(may)}", wit)
        for s in out["spas"]:
            cands = [x for x in resp if x.ident == s.identifier]
            if not any(x.name == s.name and x.reply_addr == (s.ipaddress, s.port) for x in cands) or not isinstance(s.identifier, bytes):
                sh.violation("C15:descriptor-not-intact", f"descriptor ({s.identifier!r}, {s.name!r}, {s.ipaddress}:{s.port}) matches no responder", wit)
            else:
                sh.count("descriptors_intact")
                if s.port != 10022:
                    sh.count("descriptors_with_another_source_port")
                if "|" in s.name:
                    sh.count("names_with_separator_listed")
                if any(ord(c) > 127 for c in s.name):
                    sh.count("names_latin1_listed")
        if "exc2" in out:
            d = describe_exc(out["exc2"])
            sh.violation("C15:raise", f"a second discover() in the same process raised {d['type']}: {d['msg']}", dict(wit, exc=d))
        elif "spas2" in out:
            sh.count("second_discovery_runs")
            l2 = sorted(s_.identifier for s_ in out["spas2"])
            if l2 != sorted(listed):
                sh.violation("C15:second-run-differs", f"a second locator in the same process, against the same well-behaved spas, lists {l2} where the first listed {sorted(listed)}", wit)
        # a discovery run asks: at least one hello left its endpoint (otherwise nobody can answer)
        hellos = [d for d in w.net.dgrams if d.dir == "c2s" and d.verb == "HELLO"]
        if not hellos and dur > 0.5:
            sh.violation("C15:no-hello-sent", f"discovery ran {dur:.2f}s without a single hello leaving its endpoint", wit)
        # timing
        specific = ("spa_identifier" in kw) or ("spa_address" in kw)
        if dur > T_MAX + slack:
            sh.violation("C15:over-timeout", f"discovery took {dur:.2f}s, timeout {T_MAX}s", wit)
        tfirst = min((t for t, x in first.values()), default=None)
        ufirst = min(first_u.values(), default=None)
        if specific and tfirst is not None and ufirst - t0 < T_MAX - slack:
            if dur > (ufirst - t0) + slack:
                sh.violation("C15:late-return-specific", f"requested spa answered at +{tfirst - t0:.2f}s but discovery returned at +{dur:.2f}s", wit)
            sh.count("returns_on_specific_answer")
        elif not specific and tfirst is not None and max(T_INIT, ufirst - t0) < T_MAX - slack:
            if dur > max(T_INIT, ufirst - t0) + slack:
                sh.violation("C15:late-return-any", f"first answer at +{tfirst - t0:.2f}s, initial wait {T_INIT}s, but returned at +{dur:.2f}s", wit)
            sh.count("returns_after_initial_wait")
        # never earlier than allowed
        if dur < T_MAX - 1e-6:
            ok_specific = specific and len(listed) > 0
            ok_any = dur >= T_INIT - 1e-6 and len(listed) > 0
            if not (ok_specific or ok_any):
                sh.violation("C15:early-return", f"discovery returned at +{dur:.2f}s with {len(listed)} spa(s) listed (filter {kw}) - before the timeout and without a qualifying answer", wit)
        else:
            sh.count("ran_to_timeout")
        # clean-up
        opened = out["transports"]
        if not opened or not all(t.closed for t in opened):
            sh.violation("C15:endpoint-open", f"discovery endpoint not closed on return ({[(t.local, t.closed) for t in opened]})", wit)
        if out["loc_tasks"]:
            sh.violation("C15:helper-tasks-alive", f"helper tasks still alive after return: {out['loc_tasks']}", wit)
        disc = [e for e in events if e[0] == GeckoSpaEvent.LOCATING_DISCOVERED_SPA]
        if len(disc) != len(listed):
            sh.violation("C15:event-count", f"{len(disc)} discovered-events for {len(listed)} listed spas", wit)
        sh.see("modes", mode)
        sh.see("outcome_classes", f"{mode}:{nresp}:{len(listed)}:{'timeout' if dur >= T_MAX - 1e-6 else 'early'}")
        sh.nontrivial(f"{seed}:{idx}")
        if len(sh.samples) < 3 and resp:
            sh.sample(wit)
    finally:
        w.close()


def shard(sh: Shard, seed, lo, hi):
    for idx in range(lo, hi):
        regime = ["B", "J", "B", "J", "H"][idx % 5]
        try:
            scenario(sh, seed, idx, regime if regime != "H" else "J")
        except Exception as e:
            d = describe_exc(e)
            if d["where"] == "repo":
                sh.violation("C15:raise", f"{d['type']}: {d['msg']}", d)
            else:
                raise


def main(tier, seed):
    run = Run("C15", tier, seed, "exploration")
    per = 120 if tier == "quick" else 4000
    jobs = [{"seed": seed, "lo": i * per, "hi": (i + 1) * per} for i in range(NCPU)]
    run.absorb(run_shards("checks.c15", "shard", jobs, timeout=3000))
    from checks import c15_threaded

    c15_threaded.add(run, tier, seed)
    for m in ("none", "id", "id-absent", "addr", "addr+id"):
        run.need(m in run.sets.get("modes", set()), f"filter mode {m} never exercised")
    run.need(run.counters.get("cancelled_discoveries", 0) > 10, "no cancelled discovery run")
    run.need(run.counters.get("runs_straddling_a_tidy_tick", 0) > 100, "too few discovery runs straddling a tidy tick of the task farm")
    run.need(run.counters.get("second_discovery_runs", 0) > 30, "too few second discovery runs in one process")
    run.need(run.counters.get("runs_with_slow_handlers", 0) > 30, "too few runs with a client handler suspended for 0.3 s or more")
    run.need(run.counters.get("names_with_separator_listed", 0) > 5 and run.counters.get("names_latin1_listed", 0) > 20, "names with '|' / latin-1 hardly listed")
    run.need(run.counters.get("returns_on_specific_answer", 0) > 20 and run.counters.get("returns_after_initial_wait", 0) > 20 and run.counters.get("ran_to_timeout", 0) > 20, "return-time classes not all observed")
    return run.finish(
        rule="discovery runs of the real locator against 0-6 scripted responders (generated identifiers incl. a shared identifier, names incl. '|' and non-ASCII latin-1, reply multiplicity 1-5, latencies from sub-millisecond to beyond the timeout, loss, answering only from the k-th hello) with no filter / identifier / absent identifier / address / address+identifier, suspending event handlers, regimes B/J; one evaluation = one discover() call; distinct = distinct scenarios",
        assumptions=["the hello consumer processes one datagram per 100 ms poll: a reply counts as 'answered' once a reference one-per-poll queue would have processed it a poll before the return; the backlog this causes (max reported in evidence) is treated as scheduling latency, replies arriving after the return are not required", "the workload sends the locator nothing but hello replies (its endpoint has no unhandled-consumer; see DESIGN.md)"],
    )


def replay(path):
    from vlib.common import replay_args

    return main(*replay_args(path))
