#!/bin/bash
# Offline setup: runtime-contract library beside the repository's interpreter.
HERE="$(cd "$(dirname "$0")" && pwd)"
mkdir -p "$HERE/.deps" "$HERE/.cache" "$HERE/evidence" "$HERE/replays"
if [ ! -d "$HERE/.deps/icontract" ]; then
  PIP_NO_INDEX=1 /venv/bin/pip install --quiet --no-index --find-links /opt/veriftools/wheels \
      --target "$HERE/.deps" icontract || echo "setup: icontract not installed (contracts will report inconclusive)"
fi
exit 0
